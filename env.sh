# source this: toolchain for the checker (go1.26.8 + x/tools v0.50.0, offline)
export PATH=/opt/veriftools/go1.26.8/bin:$PATH
export GOTOOLCHAIN=local GOFLAGS=-mod=mod GOPROXY=off GOSUMDB=off CGO_ENABLED=0
unset GOWORK
