#!/usr/bin/env python3
"""Writes MANIFEST.json from the table below (kept valid at all times)."""
import json, subprocess, sys, os
ENV = ". /verif/env.sh"
SETUP = "cd /verif/checker && . /verif/env.sh && go build -o /verif/bin/nxcheck ./cmd/nxcheck"
# property id -> (technique, level text, level note, design ref)
CLAIMED = {}
exec(open(os.path.join(os.path.dirname(__file__), "manifest_table.py")).read())
props = [json.loads(l) for l in open("/verif/properties.jsonl")]
DESC = json.loads(subprocess.run(["/verif/bin/nxcheck", "describe"], capture_output=True, text=True, check=True).stdout)
for pid, d in DESC.items():
    if pid in TECH:
        CLAIMED[pid] = (TECH[pid], "Static analysis, level 'other'. Decides, as structural necessary conditions on every path of the anchored functions: " + d["decides"] + " Does not decide: " + d["not_decided"], NOTE_COMMON, "DESIGN.md section 4 " + pid)
checks, na = [], []
for p in props:
    pid = p["id"]
    if pid in CLAIMED:
        tech, text, note, ref = CLAIMED[pid]
        cmd = f"cd /verif && {ENV} && (test -x bin/nxcheck || ({SETUP})) && bin/nxcheck check -property {pid} -tier %s"
        checks.append({
            "property_id": pid,
            "quick_cmd": cmd % "quick",
            "thorough_cmd": cmd % "thorough",
            "evidence_file": f"/verif/evidence/{pid}.json",
            "replay_cmd_template": f"cd /verif && {ENV} && bin/nxcheck check -property {pid} -tier quick  # static: re-analyses /repo; the record at {{path}} names the construct",
            "engine": "nxcheck",
            "level_claimed": {"category": "other", "text": text, "design_ref": ref},
            "level_note": note,
            "technique": tech,
        })
    else:
        na.append({"property_id": pid, "reason": NOT_APPLICABLE.get(pid, "check not built yet (work in progress); see DESIGN.md section 4 for the planned static rules")})
m = {
    "version": 1,
    "setup_cmd": SETUP,
    "hooks": {"guard": "verif", "enable": "none: the checker analyses the unmodified sources; no hooks or build tags were added to gammazero/nexus",
              "baseline_off_cmd": "cd /repo && go test -vet=off -count=1 -timeout 25m ./...",
              "source_commits": [], "add_only": True},
    "engines": [{"name": "nxcheck", "path": "/verif/checker", "serves_properties": sorted(CLAIMED),
                 "kind_free_text": "repository-specific static analyser (go/packages + go/types + go/ssa, x/tools v0.50.0, go1.26.8): edge-cut guard obligations, must-pass-through, owner confinement, untrusted-any sinks, freshness/aliasing, table agreement, channel life-cycle, regular-language equivalence"}],
    "checks": checks,
    "not_applicable": na,
    "notes": NOTES,
}
json.dump(m, open("/verif/MANIFEST.json", "w"), indent=1)
print("claimed", len(checks), "not_applicable", len(na))
