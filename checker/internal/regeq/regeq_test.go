package regeq

import "testing"

func TestEquiv(t *testing.T) {
	cases := []struct {
		a, b string
		eq   bool
	}{
		{`^([^\s\.#]+\.)*([^\s\.#]+)$`, `^[^\s.#]+(\.[^\s.#]+)*$`, true},
		{`^([0-9a-z_]+\.)*([0-9a-z_]*)$`, `^([0-9a-z_]+\.)*[0-9a-z_]*$`, true},
		{`^(([0-9a-z_]+\.)|\.)*([0-9a-z_]+)?$`, `^[0-9a-z_]*(\.[0-9a-z_]*)*$`, true},
		{`^([^\s\.]+\.)*([^\s\.#]*)$`, `^([^\s\.#]+\.)*([^\s\.#]*)$`, false},
		{`^a+$`, `^aa*$`, true},
		{`^a+$`, `a+`, false},
		{`^[^\s]+$`, `^[^\s\v]+$`, false},
	}
	for _, c := range cases {
		eq, w, inA, err := Equivalent(c.a, c.b)
		if err != nil {
			t.Fatal(err)
		}
		if eq != c.eq {
			t.Errorf("%q vs %q: got %v want %v (witness %q inA=%v)", c.a, c.b, eq, c.eq, w, inA)
		}
		if !eq {
			t.Logf("%q vs %q differ on %q (inA=%v)", c.a, c.b, w, inA)
		}
	}
}
