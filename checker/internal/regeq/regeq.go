// Package regeq decides equivalence of the languages accepted by two Go
// regular expressions under (*regexp.Regexp).MatchString semantics, by a
// product construction over the compiled programs (regexp/syntax.Prog). It
// returns a shortest distinguishing string when they differ.
package regeq

import (
	"fmt"
	"regexp/syntax"
	"sort"
	"strings"
)

type prog struct {
	p *syntax.Prog
}

func compile(pat string) (*prog, error) {
	re, err := syntax.Parse(pat, syntax.Perl)
	if err != nil {
		return nil, err
	}
	p, err := syntax.Compile(re.Simplify())
	if err != nil {
		return nil, err
	}
	for _, in := range p.Inst {
		if in.Op == syntax.InstEmptyWidth {
			if syntax.EmptyOp(in.Arg)&^(syntax.EmptyBeginText|syntax.EmptyEndText) != 0 {
				return nil, fmt.Errorf("unsupported zero-width assertion in %q", pat)
			}
		}
	}
	return &prog{p}, nil
}

// closure: set of pcs of rune-consuming or match instructions reachable from
// pcs through empty transitions, given whether we are at the beginning / end
// of the text.
func (g *prog) closure(pcs []uint32, atBegin, atEnd bool) []uint32 {
	seen := map[uint32]bool{}
	var out []uint32
	var visit func(pc uint32)
	visit = func(pc uint32) {
		if seen[pc] {
			return
		}
		seen[pc] = true
		in := &g.p.Inst[pc]
		switch in.Op {
		case syntax.InstAlt, syntax.InstAltMatch:
			visit(in.Out)
			visit(in.Arg)
		case syntax.InstCapture, syntax.InstNop:
			visit(in.Out)
		case syntax.InstEmptyWidth:
			op := syntax.EmptyOp(in.Arg)
			if op&syntax.EmptyBeginText != 0 && !atBegin {
				return
			}
			if op&syntax.EmptyEndText != 0 && !atEnd {
				return
			}
			visit(in.Out)
		case syntax.InstFail:
		default: // rune instructions, match
			out = append(out, pc)
		}
	}
	for _, pc := range pcs {
		visit(pc)
	}
	sort.Slice(out, func(i, j int) bool { return out[i] < out[j] })
	return out
}

func (g *prog) hasMatch(set []uint32) bool {
	for _, pc := range set {
		if g.p.Inst[pc].Op == syntax.InstMatch {
			return true
		}
	}
	return false
}

// state of one program while scanning: the live threads (pcs waiting for a
// rune) and whether a match has already been found (MatchString is
// unanchored: once matched, always matched).
type st struct {
	pcs     []uint32
	matched bool
}

func key(s st) string {
	var b strings.Builder
	if s.matched {
		b.WriteString("M")
	}
	for _, pc := range s.pcs {
		fmt.Fprintf(&b, ",%d", pc)
	}
	return b.String()
}

// start state at position 0 (before any rune).
func (g *prog) start() st {
	c := g.closure([]uint32{uint32(g.p.Start)}, true, false)
	return st{pcs: c, matched: g.hasMatch(c)}
}

// accepts: would the text end here, is it accepted?
func (g *prog) accepts(s st, atBegin bool, raw []uint32) bool {
	if s.matched {
		return true
	}
	// re-close the raw successor pcs with atEnd = true
	c := g.closure(raw, atBegin, true)
	return g.hasMatch(c)
}

// step consumes rune r. Returns the new state and the raw (unclosed) pcs that
// produced it (needed to evaluate end-of-text assertions).
func (g *prog) step(s st, r rune) (st, []uint32) {
	var raw []uint32
	for _, pc := range s.pcs {
		in := &g.p.Inst[pc]
		switch in.Op {
		case syntax.InstRune, syntax.InstRune1, syntax.InstRuneAny, syntax.InstRuneAnyNotNL:
			if in.MatchRune(r) {
				raw = append(raw, in.Out)
			}
		}
	}
	// unanchored search: a match may also start at the next position
	raw = append(raw, uint32(g.p.Start))
	c := g.closure(raw, false, false)
	return st{pcs: c, matched: s.matched || g.hasMatch(c)}, raw
}

func (g *prog) bounds(add func(rune)) {
	for _, in := range g.p.Inst {
		switch in.Op {
		case syntax.InstRune, syntax.InstRune1:
			for i := 0; i+1 < len(in.Rune); i += 2 {
				add(in.Rune[i])
				add(in.Rune[i+1] + 1)
			}
			if len(in.Rune) == 1 {
				add(in.Rune[0])
				add(in.Rune[0] + 1)
			}
			if syntax.Flags(in.Arg)&syntax.FoldCase != 0 {
				for r := 'A'; r <= 'z'+1; r++ {
					add(r)
				}
			}
		case syntax.InstRuneAnyNotNL:
			add('\n')
			add('\n' + 1)
		}
	}
}

// Equivalent reports whether patterns a and b accept the same strings. When
// they do not, witness is a shortest string accepted by exactly one of them
// and inA tells which.
func Equivalent(a, b string) (equal bool, witness string, inA bool, err error) {
	ga, err := compile(a)
	if err != nil {
		return false, "", false, err
	}
	gb, err := compile(b)
	if err != nil {
		return false, "", false, err
	}
	bset := map[rune]bool{0: true}
	add := func(r rune) {
		if r >= 0 && r <= 0x10FFFF {
			bset[r] = true
		}
	}
	ga.bounds(add)
	gb.bounds(add)
	var bs []rune
	for r := range bset {
		bs = append(bs, r)
	}
	sort.Slice(bs, func(i, j int) bool { return bs[i] < bs[j] })
	// one representative per interval [bs[i], bs[i+1]) — skip surrogates
	var reps []rune
	for _, r := range bs {
		if r >= 0xD800 && r <= 0xDFFF {
			r = 0xE000
		}
		reps = append(reps, r)
	}
	type node struct {
		a, b       st
		rawA, rawB []uint32
		atBegin    bool
		word       string
	}
	sa, sb := ga.start(), gb.start()
	n0 := node{a: sa, b: sb, rawA: []uint32{uint32(ga.p.Start)}, rawB: []uint32{uint32(gb.p.Start)}, atBegin: true}
	seen := map[string]bool{}
	queue := []node{n0}
	for len(queue) > 0 {
		n := queue[0]
		queue = queue[1:]
		accA := ga.accepts(n.a, n.atBegin, n.rawA)
		accB := gb.accepts(n.b, n.atBegin, n.rawB)
		if accA != accB {
			return false, n.word, accA, nil
		}
		for _, r := range reps {
			na, ra := ga.step(n.a, r)
			nb, rb := gb.step(n.b, r)
			k := key(na) + "|" + key(nb) + "|" + fmt.Sprint(ra) + "|" + fmt.Sprint(rb)
			if seen[k] {
				continue
			}
			seen[k] = true
			if len(seen) > 200000 {
				return false, "", false, fmt.Errorf("state space too large")
			}
			queue = append(queue, node{a: na, b: nb, rawA: ra, rawB: rb, atBegin: false, word: n.word + string(r)})
		}
	}
	return true, "", false, nil
}
