package ir

// Normalisation pass: inlining of helper functions that did not exist when the
// rules were written.
//
// The obligations of this checker are anchored in the functions named by the
// properties. A routine clean-up — moving a few lines of such a function into a
// new unexported helper — keeps the behaviour but hides the moved effect from a
// per-function rule. Before analysis, every function of the repository that is
// not in the frozen function table (props/frozen_names.json: the functions that
// existed when the rules were written), is unexported, has a body, and is only
// ever called directly in statement positions where hoisting the call keeps the
// evaluation order, is inlined at all of its call sites, at source level:
//
//	x := recv.helper(a, b)          var _inl1_a0 *T = recv; var _inl1_a1 A = a; var _inl1_a2 B = b
//	                          ==>   var _inl1_r0 R
//	                                _inl1: switch { default: { var d *T = _inl1_a0; ... body, `return e` -> `{ _inl1_r0 = e; break _inl1 }` } }
//	                                x := _inl1_r0
//
// The rewritten files are handed to the loader as an overlay and the program is
// type-checked again (a rewrite that does not type-check is discarded and the
// original program analysed). //line directives keep every position pointing at
// the original source. Inlining is semantics-preserving (call-by-value binding
// of receiver and arguments in evaluation order, results through temporaries),
// so an obligation decided on the normalised program is decided for the
// original one. A helper all of whose call sites were inlined is dead code and
// is excluded from the analysed function set. Helpers that use defer/recover,
// are recursive, generic or variadic, are used as values or under go/defer, or
// are called in expression positions are left alone; rules then see the new
// function as it is (and may report the anchored effect as not found).

import (
	"bytes"
	"fmt"
	"go/ast"
	"go/token"
	"go/types"
	"os"
	"sort"
	"strings"

	"golang.org/x/tools/go/packages"
)

// KnownFunc reports whether a function (by short name) existed when the rules were written.
func KnownFunc(short string) bool {
	_, ok := Canon[short]
	return ok
}

type edit struct {
	start, end int // byte offsets in the file
	text       string
}

type inlineSite struct {
	file    *ast.File
	fname   string
	stmt    ast.Stmt // statement that contains the call (replaced as a whole)
	call    *ast.CallExpr
	wrap    bool // stmt is the Else of an if: wrap into braces
	deferred bool // the call is the operand of a defer statement: the body runs in a deferred function literal
	inFunc  string
	nonVoid bool
}

// astShortName renders the short name of a declared function the way ShortName does for its SSA function.
func astShortName(pkg *packages.Package, fd *ast.FuncDecl) string {
	obj, _ := pkg.TypesInfo.Defs[fd.Name].(*types.Func)
	if obj == nil {
		return ""
	}
	rel := relPkg(pkg.Types)
	if rel == "" {
		return ""
	}
	sig := obj.Type().(*types.Signature)
	name := rel + "." + obj.Name()
	if r := sig.Recv(); r != nil {
		name = rel + "." + recvString(r.Type()) + "." + obj.Name()
	}
	if old, ok := Alias[name]; ok {
		return old
	}
	return name
}

// InlineNewHelpers computes the overlay for one round of inlining. It returns
// the rewritten files, the short names of the helpers inlined (now dead), and a
// log of what was done. No candidates: nil overlay.
func InlineNewHelpers(pkgs []*packages.Package, round int) (map[string][]byte, []string, []string) {
	overlay := map[string][]byte{}
	var dead, log []string
	counter := round * 1000
	for _, pkg := range pkgs {
		if !strings.HasPrefix(pkg.PkgPath, ModPath) || pkg.TypesInfo == nil {
			continue
		}
		// candidates
		type cand struct {
			body  *ast.BlockStmt
			sig   *types.Signature
			obj   types.Object // *types.Func of a new helper, or the *types.Var a call-only local closure is bound to
			file  *ast.File
			short string
			lit   *ast.FuncLit // closures only
			def   ast.Stmt     // closures only: the statement `name := func(...) {...}`
		}
		var cands []*cand
		candByObj := map[types.Object]*cand{}
		for _, f := range pkg.Syntax {
			for _, d := range f.Decls {
				fd, ok := d.(*ast.FuncDecl)
				if !ok || fd.Body == nil || ast.IsExported(fd.Name.Name) || fd.Name.Name == "init" || fd.Name.Name == "main" || fd.Name.Name == "_" {
					continue
				}
				short := astShortName(pkg, fd)
				if short == "" || KnownFunc(short) || os.Getenv("NXCHECK_NOHELPERINLINE") != "" {
					continue
				}
				obj := pkg.TypesInfo.Defs[fd.Name].(*types.Func)
				sig := obj.Type().(*types.Signature)
				if sig.TypeParams() != nil || sig.RecvTypeParams() != nil || sig.Variadic() {
					continue
				}
				if !bodyInlinable(fd.Body, obj, pkg.TypesInfo) {
					log = append(log, "not inlined: "+short+" (uses defer or recover, or is recursive)")
					continue
				}
				c := &cand{body: fd.Body, sig: sig, obj: obj, file: f, short: short}
				cands = append(cands, c)
				candByObj[obj] = c
			}
		}
		// local closures that are bound once to a variable and only ever called directly: a helper written as a closure.
		// They are inlined in every tree, the unchanged one included, so that "closure", "method" and "inlined" forms
		// of one helper normalise to the same program.
		if os.Getenv("NXCHECK_NOCLOSUREINLINE") == "" {
			for _, f := range pkg.Syntax {
				for _, d := range f.Decls {
					fd, ok := d.(*ast.FuncDecl)
					if !ok || fd.Body == nil || !libRel(relPkg(pkg.Types)) {
						continue
					}
					ast.Inspect(fd.Body, func(n ast.Node) bool {
						as, ok := n.(*ast.AssignStmt)
						if !ok || as.Tok != token.DEFINE || len(as.Lhs) != 1 || len(as.Rhs) != 1 {
							return true
						}
						id, ok := as.Lhs[0].(*ast.Ident)
						lit, ok2 := as.Rhs[0].(*ast.FuncLit)
						if !ok || !ok2 || id.Name == "_" {
							return true
						}
						v, _ := pkg.TypesInfo.Defs[id].(*types.Var)
						sig, _ := pkg.TypesInfo.TypeOf(lit).(*types.Signature)
						if v == nil || sig == nil || sig.Variadic() || !bodyInlinable(lit.Body, v, pkg.TypesInfo) {
							return true
						}
						c := &cand{body: lit.Body, sig: sig, obj: v, file: f, short: astShortName(pkg, fd) + "·" + id.Name, lit: lit, def: as}
						cands = append(cands, c)
						candByObj[v] = c
						return true
					})
				}
			}
		}
		if len(cands) == 0 {
			continue
		}
		// leaf candidates only in this round: a candidate whose body calls another candidate waits
		leaf := map[types.Object]bool{}
		for _, c := range cands {
			isLeaf := true
			ast.Inspect(c.body, func(n ast.Node) bool {
				if id, ok := n.(*ast.Ident); ok {
					if o := pkg.TypesInfo.Uses[id]; o != nil && candByObj[o] != nil {
						isLeaf = false
					}
					// a closure candidate defined inside this body moves with it: wait for it to be inlined first
					if o := pkg.TypesInfo.Defs[id]; o != nil && candByObj[o] != nil {
						isLeaf = false
					}
				}
				return true
			})
			leaf[c.obj] = isLeaf
		}
		// uses of each candidate
		sites := map[types.Object][]*inlineSite{}
		rejected := map[types.Object]string{}
		for _, f := range pkg.Syntax {
			fname := pkg.Fset.PositionFor(f.Pos(), false).Filename
			parents := map[ast.Node]ast.Node{}
			var stack []ast.Node
			ast.Inspect(f, func(n ast.Node) bool {
				if n == nil {
					stack = stack[:len(stack)-1]
					return true
				}
				if len(stack) > 0 {
					parents[n] = stack[len(stack)-1]
				}
				stack = append(stack, n)
				return true
			})
			ast.Inspect(f, func(n ast.Node) bool {
				id, ok := n.(*ast.Ident)
				if !ok {
					return true
				}
				o := pkg.TypesInfo.Uses[id]
				if o == nil || candByObj[o] == nil {
					return true
				}
				site, why := classifyUse(id, parents, pkg.TypesInfo)
				if site == nil {
					rejected[o] = why + " at " + pkg.Fset.Position(id.Pos()).String()
					return true
				}
				site.file, site.fname = f, fname
				sites[o] = append(sites[o], site)
				return true
			})
		}
		edits := map[string][]edit{}
		src := map[string][]byte{}
		getSrc := func(fname string) []byte {
			if b, ok := src[fname]; ok {
				return b
			}
			b, err := readFileOverlay(pkg, fname)
			if err != nil {
				return nil
			}
			src[fname] = b
			return b
		}
		usedStmt := map[ast.Stmt]bool{}
		for _, c := range cands {
			if !leaf[c.obj] {
				continue
			}
			if why, bad := rejected[c.obj]; bad {
				if c.lit == nil || !strings.HasPrefix(why, "used as a value") { // a closure that is passed on is simply not a helper
					log = append(log, fmt.Sprintf("not inlined: %s (%s)", c.short, why))
				}
				continue
			}
			ss := sites[c.obj]
			if len(ss) == 0 {
				continue // unused new function: nothing to do
			}
			ok := true
			type fe struct {
				fname string
				e     edit
			}
			var pending []fe
			for _, s := range ss {
				if usedStmt[s.stmt] {
					ok = false
					log = append(log, fmt.Sprintf("not inlined: %s (two helper calls in one statement)", c.short))
					break
				}
				counter++
				es, err := buildInline(pkg, c.body, c.sig, c.lit, c.file, s, counter, getSrc)
				if err != nil {
					ok = false
					log = append(log, fmt.Sprintf("not inlined: %s (%v)", c.short, err))
					break
				}
				for _, e := range es {
					pending = append(pending, fe{s.fname, e})
				}
			}
			if !ok {
				continue
			}
			for _, s := range ss {
				usedStmt[s.stmt] = true
			}
			for _, p := range pending {
				edits[p.fname] = append(edits[p.fname], p.e)
			}
			if c.def != nil {
				// the closure's definition goes (its variable would be unused); line structure is kept
				fname := pkg.Fset.PositionFor(c.file.Pos(), false).Filename
				if b := getSrc(fname); b != nil {
					st, en := pkg.Fset.PositionFor(c.def.Pos(), false).Offset, pkg.Fset.PositionFor(c.def.End(), false).Offset
					edits[fname] = append(edits[fname], edit{st, en, strings.Repeat("\n", strings.Count(string(b[st:en]), "\n"))})
				}
			} else {
				dead = append(dead, c.short)
			}
			for _, s := range ss {
				log = append(log, fmt.Sprintf("inlined %s into %s at %s", c.short, s.inFunc, pkg.Fset.Position(s.call.Pos())))
			}
		}
		for fname, es := range edits {
			b := getSrc(fname)
			if b == nil {
				continue
			}
			// identical import insertions requested by several sites: keep one
			seen := map[edit]bool{}
			var uniq []edit
			for _, e := range es {
				if strings.HasPrefix(e.text, "; import ") {
					if seen[e] {
						continue
					}
					seen[e] = true
				}
				uniq = append(uniq, e)
			}
			es = uniq
			// apply from the end of the file; at equal offsets the replacement goes first so that the insertion lands before it
			sort.SliceStable(es, func(i, j int) bool {
				if es[i].start != es[j].start {
					return es[i].start > es[j].start
				}
				return es[i].end-es[i].start > es[j].end-es[j].start
			})
			out := append([]byte(nil), b...)
			for _, e := range es {
				out = append(out[:e.start], append([]byte(e.text), out[e.end:]...)...)
			}
			overlay[fname] = out
		}
	}
	if len(overlay) == 0 {
		return nil, nil, log
	}
	return overlay, dead, log
}

var overlayNow map[string][]byte

func readFileOverlay(pkg *packages.Package, fname string) ([]byte, error) {
	if b, ok := overlayNow[fname]; ok {
		return b, nil
	}
	return os.ReadFile(fname)
}

// bodyInlinable: no defer, no recover, no direct recursion; labels (and the gotos, breaks and continues that name them) are renamed.
func bodyInlinable(body *ast.BlockStmt, obj types.Object, info *types.Info) bool {
	ok := true
	var visit func(n ast.Node, inLit bool)
	visit = func(n ast.Node, inLit bool) {
		ast.Inspect(n, func(m ast.Node) bool {
			switch x := m.(type) {
			case *ast.FuncLit:
				if m != n {
					visit(x.Body, true)
					return false
				}
			case *ast.DeferStmt:
				if !inLit {
					ok = false
				}
			case *ast.Ident:
				if o := info.Uses[x]; o == obj {
					ok = false // recursion
				}
				if x.Name == "recover" {
					if _, isB := info.Uses[x].(*types.Builtin); isB {
						ok = false
					}
				}
			}
			return true
		})
	}
	visit(body, false)
	return ok
}

// classifyUse decides whether the use `id` of a helper is a call in a position that can be inlined: the call is
// evaluated exactly once when its host statement is reached, and no other call or channel receive of that statement
// is evaluated before it (Go orders only calls, method calls and communication operations; operand reads are not
// ordered relative to them), so evaluating it — receiver, arguments, body — just before the host statement keeps the
// order of all effects, up to a run-time panic raised by an operand in between.
func classifyUse(id *ast.Ident, parents map[ast.Node]ast.Node, info *types.Info) (*inlineSite, string) {
	var n ast.Node = id
	p := parents[n]
	if sel, ok := p.(*ast.SelectorExpr); ok && sel.Sel == id {
		n = sel
		p = parents[n]
	}
	for {
		if pe, ok := p.(*ast.ParenExpr); ok {
			n = pe
			p = parents[n]
			continue
		}
		break
	}
	call, ok := p.(*ast.CallExpr)
	if !ok || call.Fun != n {
		return nil, "used as a value"
	}
	if call.Ellipsis != token.NoPos {
		return nil, "variadic call"
	}
	inFunc := ""
	for q := ast.Node(call); q != nil; q = parents[q] {
		if fd, ok := q.(*ast.FuncDecl); ok {
			inFunc = fd.Name.Name
			break
		}
	}
	site := &inlineSite{call: call, inFunc: inFunc}
	// climb to the innermost statement; refuse conditional or deferred evaluation on the way
	var child ast.Node = call
	var simple ast.Stmt
	for q := parents[call]; q != nil; child, q = q, parents[q] {
		switch x := q.(type) {
		case *ast.BinaryExpr:
			if (x.Op == token.LAND || x.Op == token.LOR) && x.Y == child {
				return nil, "call is evaluated conditionally (right operand of && or ||)"
			}
		case *ast.FuncLit:
			return nil, "unsupported statement position" // cannot happen: the statement inside the literal is found first
		case *ast.GoStmt:
			if x.Call == child {
				return nil, "helper started with go"
			}
		case *ast.DeferStmt:
			if x.Call == child {
				// `defer helper(args)`: operands are evaluated now, the body runs at function exit. Normalised to
				// temporaries + `defer func() { body }()`, which is what a deferred closure written by hand looks like.
				switch parents[x].(type) {
				case *ast.BlockStmt, *ast.CaseClause, *ast.CommClause:
				default:
					return nil, "helper deferred in an unsupported position"
				}
				for _, a := range call.Args {
					bad := false
					ast.Inspect(a, func(m ast.Node) bool {
						if ce, ok := m.(*ast.CallExpr); ok && !pureCall(ce, info) {
							bad = true
						}
						return true
					})
					if bad {
						return nil, "helper deferred with calls among its operands"
					}
				}
				site.deferred = true
				site.stmt = x
				return site, ""
			}
		}
		if st, ok := q.(ast.Stmt); ok {
			simple = st
			break
		}
	}
	if simple == nil {
		return nil, "call outside a statement"
	}
	// the region whose expressions are evaluated together with the call, and the statement the prelude goes before
	var region ast.Node = simple
	host := simple
	switch x := simple.(type) {
	case *ast.ExprStmt, *ast.AssignStmt, *ast.ReturnStmt, *ast.SendStmt, *ast.DeclStmt, *ast.GoStmt, *ast.DeferStmt:
	case *ast.IfStmt:
		if x.Init != nil || !within(call, x.Cond) {
			return nil, "unsupported position in an if statement"
		}
		region = x.Cond
	case *ast.SwitchStmt:
		if x.Init != nil || x.Tag == nil || !within(call, x.Tag) {
			return nil, "unsupported position in a switch statement"
		}
		region = x.Tag
	case *ast.RangeStmt:
		if !within(call, x.X) {
			return nil, "unsupported position in a range statement"
		}
		region = x.X
	default:
		return nil, "unsupported statement kind"
	}
	// a simple statement may be the Init of an if/switch/for: evaluated once, before everything else of that statement
	switch y := parents[simple].(type) {
	case *ast.IfStmt:
		if y.Init == simple {
			host = y
		}
	case *ast.SwitchStmt:
		if y.Init == simple {
			host = y
		}
	case *ast.TypeSwitchStmt:
		if y.Init == simple {
			host = y
		} else if y.Assign == simple {
			return nil, "unsupported position in a type switch"
		}
	case *ast.ForStmt:
		if y.Init == simple {
			host = y
		} else if y.Post == simple {
			return nil, "call in a loop's post statement"
		}
	case *ast.CommClause:
		if y.Comm == simple {
			return nil, "call in a select communication"
		}
	}
	// no call or receive of the region is evaluated before ours
	early := ""
	ast.Inspect(region, func(m ast.Node) bool {
		if m == nil || early != "" {
			return false
		}
		if m == ast.Node(call) {
			return false // its own operands move with it
		}
		if _, ok := m.(*ast.FuncLit); ok {
			return false
		}
		if m.End() > call.Pos() {
			return true // ancestor or later sibling: descend, ancestors are evaluated after their operands
		}
		switch x := m.(type) {
		case *ast.CallExpr:
			if !pureCall(x, info) {
				early = "another call is evaluated before the helper call in the same statement"
			}
		case *ast.UnaryExpr:
			if x.Op == token.ARROW {
				early = "a channel receive is evaluated before the helper call in the same statement"
			}
		}
		return true
	})
	if early != "" {
		return nil, early
	}
	switch y := parents[host].(type) {
	case *ast.BlockStmt, *ast.CaseClause, *ast.CommClause:
	case *ast.LabeledStmt:
		return nil, "labelled statement"
	case *ast.IfStmt:
		if y.Else == host {
			site.wrap = true
		} else {
			return nil, "unsupported statement position"
		}
	default:
		return nil, "unsupported statement position"
	}
	site.stmt = host
	return site, ""
}

func within(n ast.Node, root ast.Node) bool {
	return root != nil && n.Pos() >= root.Pos() && n.End() <= root.End()
}

// pureCall: conversions and the builtins without side effects.
func pureCall(c *ast.CallExpr, info *types.Info) bool {
	if tv, ok := info.Types[c.Fun]; ok && tv.IsType() {
		return true
	}
	if id, ok := ast.Unparen(c.Fun).(*ast.Ident); ok {
		if b, ok := info.Uses[id].(*types.Builtin); ok {
			switch b.Name() {
			case "len", "cap", "new", "make", "min", "max", "real", "imag", "complex":
				return true
			}
		}
	}
	return false
}

func isNotOf(e ast.Expr, call *ast.CallExpr) bool {
	u, ok := e.(*ast.UnaryExpr)
	return ok && u.Op == token.NOT && u.X == ast.Expr(call)
}

func simpleLhs(e ast.Expr) bool {
	switch x := e.(type) {
	case *ast.Ident:
		return true
	case *ast.SelectorExpr:
		return simpleLhs(x.X)
	}
	return false
}

// buildInline produces the edit replacing site.stmt by prelude + inlined body + the statement with the call replaced.
func buildInline(pkg *packages.Package, hbody *ast.BlockStmt, sig *types.Signature, lit *ast.FuncLit, hfile *ast.File, s *inlineSite, n int, getSrc func(string) []byte) ([]edit, error) {
	fset := pkg.Fset
	info := pkg.TypesInfo
	csrc := getSrc(s.fname)
	hname := fset.PositionFor(hfile.Pos(), false).Filename
	hsrc := getSrc(hname)
	if csrc == nil || hsrc == nil {
		return nil, fmt.Errorf("source not readable")
	}
	off := func(p token.Pos) int { return fset.PositionFor(p, false).Offset }
	lineDir := func(p token.Pos) string { q := fset.Position(p); return fmt.Sprintf("\n//line %s:%d\n", q.Filename, q.Line) }
	if len(s.call.Args) != sig.Params().Len() {
		return nil, fmt.Errorf("argument count differs from parameter count")
	}
	var imports []edit
	// qualifier for types printed into the caller's file
	fileImports := map[string]string{} // path -> local name
	for _, is := range s.file.Imports {
		path := strings.Trim(is.Path.Value, `"`)
		name := ""
		if is.Name != nil {
			name = is.Name.Name
		}
		fileImports[path] = name
	}
	var qerr error
	needImport := func(p *types.Package, wantName string) string {
		if p == pkg.Types {
			return ""
		}
		if nm, ok := fileImports[p.Path()]; ok {
			if nm == "." || nm == "_" {
				qerr = fmt.Errorf("dot or blank import of %s in the caller's file", p.Path())
				return p.Name()
			}
			if nm == "" {
				nm = p.Name()
			}
			if wantName != "" && wantName != nm {
				qerr = fmt.Errorf("package %s imported under different names", p.Path())
			}
			return nm
		}
		nm := wantName
		if nm == "" {
			nm = p.Name()
		}
		// the name must be free in the caller's file and package scope
		if pkg.Types.Scope().Lookup(nm) != nil {
			qerr = fmt.Errorf("cannot import %s: name %s is taken", p.Path(), nm)
			return nm
		}
		for path, have := range fileImports {
			h := have
			if h == "" {
				h = path[strings.LastIndex(path, "/")+1:]
			}
			if h == nm {
				qerr = fmt.Errorf("cannot import %s: name %s is taken", p.Path(), nm)
				return nm
			}
		}
		fileImports[p.Path()] = nm
		at := off(s.file.Name.End())
		imports = append(imports, edit{at, at, fmt.Sprintf("; import %s %q", nm, p.Path())})
		return nm
	}
	qual := func(p *types.Package) string { return needImport(p, "") }
	typeStr := func(t types.Type) string { return types.TypeString(t, qual) }

	// identifiers of the body that refer to package-level / universe / imported names must mean the same at the call site
	callScope := pkg.Types.Scope().Innermost(s.call.Pos())
	if callScope == nil {
		return nil, fmt.Errorf("no scope at call site")
	}
	var shadow error
	ast.Inspect(hbody, func(m ast.Node) bool {
		id, ok := m.(*ast.Ident)
		if !ok {
			return true
		}
		o := info.Uses[id]
		if o == nil {
			return true
		}
		// a closure's captured variables (declared in the enclosing function, outside the literal) must be the same
		// variables at the call site
		if lit != nil {
			if v, isVar := o.(*types.Var); isVar && !v.IsField() && o.Pkg() == pkg.Types && o.Parent() != pkg.Types.Scope() && (o.Pos() < lit.Pos() || o.Pos() >= lit.End()) {
				if _, found := callScope.LookupParent(id.Name, s.call.Pos()); found != o {
					shadow = fmt.Errorf("captured variable %s is not the same variable at the call site", id.Name)
				}
				return true
			}
		}
		switch oo := o.(type) {
		case *types.PkgName:
			nm := needImport(oo.Imported(), oo.Name())
			if _, found := callScope.LookupParent(nm, s.call.Pos()); found != nil {
				if pn, ok := found.(*types.PkgName); !ok || pn.Imported() != oo.Imported() {
					shadow = fmt.Errorf("package name %s is shadowed at the call site", nm)
				}
			}
		default:
			if o.Parent() == types.Universe || (o.Pkg() == pkg.Types && o.Parent() == pkg.Types.Scope()) {
				if _, found := callScope.LookupParent(id.Name, s.call.Pos()); found != o {
					shadow = fmt.Errorf("name %s is shadowed at the call site", id.Name)
				}
			}
		}
		return true
	})
	if shadow != nil {
		return nil, shadow
	}

	pfx := fmt.Sprintf("_inl%d", n)
	var b strings.Builder
	callerLine := func(p token.Pos) { b.WriteString(lineDir(p)) }
	if s.wrap {
		b.WriteString("{")
	}
	callerLine(s.stmt.Pos())
	// receiver and arguments into temporaries, in evaluation order
	type bind struct{ name, typ, tmp string }
	var binds []bind
	k := 0
	if sig.Recv() != nil {
		sel, ok := ast.Unparen(s.call.Fun).(*ast.SelectorExpr)
		if !ok {
			return nil, fmt.Errorf("method call without selector")
		}
		selection := info.Selections[sel]
		if selection == nil || selection.Kind() != types.MethodVal || len(selection.Index()) != 1 {
			return nil, fmt.Errorf("method reached through embedding or method expression")
		}
		rt := sig.Recv().Type()
		xt := info.TypeOf(sel.X)
		rtext := string(csrc[off(sel.X.Pos()):off(sel.X.End())])
		_, rptr := rt.(*types.Pointer)
		_, xptr := xt.Underlying().(*types.Pointer)
		switch {
		case rptr && !xptr:
			rtext = "&(" + rtext + ")"
		case !rptr && xptr:
			rtext = "*(" + rtext + ")"
		}
		tmp := fmt.Sprintf("%s_a%d", pfx, k)
		if nm := sig.Recv().Name(); nm != "" && nm != "_" {
			tmp = pfx + "_" + nm
		}
		k++
		fmt.Fprintf(&b, "var %s %s = %s; _ = %s; ", tmp, typeStr(rt), rtext, tmp)
		binds = append(binds, bind{sig.Recv().Name(), typeStr(rt), tmp})
	}
	for i, a := range s.call.Args {
		p := sig.Params().At(i)
		tmp := fmt.Sprintf("%s_a%d", pfx, k)
		if nm := p.Name(); nm != "" && nm != "_" {
			tmp = pfx + "_" + nm
		}
		k++
		fmt.Fprintf(&b, "var %s %s = %s; _ = %s; ", tmp, typeStr(p.Type()), string(csrc[off(a.Pos()):off(a.End())]), tmp)
		binds = append(binds, bind{p.Name(), typeStr(p.Type()), tmp})
	}
	// result temporaries
	if s.deferred {
		b.WriteString("defer func() { ")
	}
	var rtmps []string
	for i := 0; i < sig.Results().Len(); i++ {
		tmp := fmt.Sprintf("%s_r%d", pfx, i)
		rtmps = append(rtmps, tmp)
		fmt.Fprintf(&b, "var %s %s; _ = %s; ", tmp, typeStr(sig.Results().At(i).Type()), tmp)
	}
	if qerr != nil {
		return nil, qerr
	}
	// body with returns and labels rewritten
	type rep struct {
		start, end int
		text       string
	}
	var reps []rep
	nret := 0
	var namedRes []string
	for i := 0; i < sig.Results().Len(); i++ {
		if nm := sig.Results().At(i).Name(); nm != "" && nm != "_" {
			namedRes = append(namedRes, nm)
		} else {
			namedRes = append(namedRes, "")
		}
	}
	label := pfx
	var rerr error
	var walk func(n ast.Node)
	walk = func(n ast.Node) {
		ast.Inspect(n, func(m ast.Node) bool {
			switch x := m.(type) {
			case *ast.FuncLit:
				return false
			case *ast.LabeledStmt:
				reps = append(reps, rep{off(x.Label.Pos()), off(x.Label.End()), x.Label.Name + pfx})
			case *ast.BranchStmt:
				if x.Label != nil {
					reps = append(reps, rep{off(x.Label.Pos()), off(x.Label.End()), x.Label.Name + pfx})
				}
			case *ast.ReturnStmt:
				nret++
				var t strings.Builder
				t.WriteString("{ ")
				switch {
				case len(rtmps) == 0:
				case len(x.Results) == 0:
					for i, r := range rtmps {
						if namedRes[i] == "" {
							rerr = fmt.Errorf("bare return with unnamed results")
							return false
						}
						fmt.Fprintf(&t, "%s = %s; ", r, namedRes[i])
					}
				default:
					var es []string
					for _, e := range x.Results {
						es = append(es, string(hsrc[off(e.Pos()):off(e.End())]))
					}
					fmt.Fprintf(&t, "%s = %s; ", strings.Join(rtmps, ", "), strings.Join(es, ", "))
				}
				fmt.Fprintf(&t, "break %s }", label)
				reps = append(reps, rep{off(x.Pos()), off(x.End()), t.String()})
				return false
			}
			return true
		})
	}
	walk(hbody)
	if rerr != nil {
		return nil, rerr
	}
	// a return nested in the replaced text of another return cannot happen (returns hold expressions only, FuncLits skipped)
	bstart, bend := off(hbody.Lbrace)+1, off(hbody.Rbrace)
	body := append([]byte(nil), hsrc[bstart:bend]...)
	sort.Slice(reps, func(i, j int) bool { return reps[i].start > reps[j].start })
	for _, r := range reps {
		body = append(body[:r.start-bstart], append([]byte(r.text), body[r.end-bstart:]...)...)
	}
	if nret > 0 {
		fmt.Fprintf(&b, "%s: ", label)
	}
	b.WriteString("switch { default: { ")
	for _, bd := range binds {
		if bd.name == "" || bd.name == "_" {
			continue
		}
		fmt.Fprintf(&b, "var %s %s = %s; _ = %s; ", bd.name, bd.typ, bd.tmp, bd.name)
	}
	for i, nm := range namedRes {
		if nm != "" {
			fmt.Fprintf(&b, "var %s %s; _ = %s; ", nm, typeStr(sig.Results().At(i).Type()), nm)
		}
	}
	b.WriteString(lineDir(hbody.Lbrace))
	// keep the body's first line aligned with the opening brace's line
	b.Write(body)
	if len(rtmps) > 0 && nret == 0 {
		return nil, fmt.Errorf("function with results and no return")
	}
	b.WriteString("\n}}")
	if s.deferred {
		// the whole defer statement is replaced
		b.WriteString("}()")
		callerLine(s.stmt.End())
		return append([]edit{{off(s.stmt.Pos()), off(s.stmt.End()), b.String()}}, imports...), nil
	}
	callerLine(s.stmt.Pos())
	// the original statement stays where it is; only the call expression is replaced by the result temporaries
	var out []edit
	out = append(out, edit{off(s.stmt.Pos()), off(s.stmt.Pos()), b.String()})
	if es, ok := s.stmt.(*ast.ExprStmt); ok && es.X == ast.Expr(s.call) {
		out = append(out, edit{off(s.call.Pos()), off(s.call.End()), ""})
	} else {
		if len(rtmps) == 0 {
			return nil, fmt.Errorf("call without results used as a value")
		}
		out = append(out, edit{off(s.call.Pos()), off(s.call.End()), strings.Join(rtmps, ", ")})
	}
	if s.wrap {
		out = append(out, edit{off(s.stmt.End()), off(s.stmt.End()), "\n}"})
	}
	return append(out, imports...), nil
}

// keep the compiler quiet about helpers used only in some build configurations
var _ = bytes.Equal

// libRel: packages of the library proper (examples, the acceptance tests and the daemon carry no obligations).
func libRel(rel string) bool {
	return rel != "" && !strings.HasPrefix(rel, "examples") && !strings.HasPrefix(rel, "aat") && !strings.HasPrefix(rel, "nexusd") && rel != "test"
}
