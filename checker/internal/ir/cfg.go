package ir

import (
	"go/constant"
	"go/token"
	"go/types"
	"regexp"
	"sort"
	"strings"

	"golang.org/x/tools/go/ssa"
)

// Atom is a normalised predicate: a descriptor string plus the truth value
// the predicate has on a given CFG edge.
type Atom struct {
	Pred  string
	Truth bool
}

func (a Atom) String() string {
	if a.Truth {
		return a.Pred
	}
	return "NOT " + a.Pred
}

// NormCond normalises a condition value into (predicate, polarity): the
// condition is true iff predicate == polarity. Negations are stripped,
// `!=` becomes NOT `==`, `>=`, `>`, `<=` are expressed through `<`, operands of
// `==` are ordered (constants last).
func NormCond(c ssa.Value) (string, bool) {
	pol := true
	for {
		switch x := c.(type) {
		case *ssa.UnOp:
			if x.Op == token.NOT {
				pol = !pol
				c = x.X
				continue
			}
		case *ssa.BinOp:
			a, b := Desc(x.X), Desc(x.Y)
			switch x.Op {
			case token.EQL, token.NEQ:
				// x == true / x == false on booleans
				if k, ok := x.Y.(*ssa.Const); ok && isBoolConst(k) {
					if (ConstStr(k) == "true") != (x.Op == token.EQL) {
						pol = !pol
					}
					c = x.X
					continue
				}
				if lessOperand(b, a, x.Y, x.X) {
					a, b = b, a
				}
				if x.Op == token.NEQ {
					pol = !pol
				}
				return "(" + a + " == " + b + ")", pol
			case token.LSS:
				return "(" + a + " < " + b + ")", pol
			case token.GEQ:
				return "(" + a + " < " + b + ")", !pol
			case token.GTR:
				return "(" + b + " < " + a + ")", pol
			case token.LEQ:
				return "(" + b + " < " + a + ")", !pol
			}
		}
		return Desc(c), pol
	}
}

// normBin normalises a comparison of two (already resolved) operands like
// NormCond does for a BinOp value.
func normBin(op token.Token, x, y ssa.Value) (string, bool) {
	a, b := Desc(x), Desc(y)
	switch op {
	case token.EQL, token.NEQ:
		if lessOperand(b, a, y, x) {
			a, b = b, a
		}
		return "(" + a + " == " + b + ")", op == token.EQL
	case token.LSS:
		return "(" + a + " < " + b + ")", true
	case token.GEQ:
		return "(" + a + " < " + b + ")", false
	case token.GTR:
		return "(" + b + " < " + a + ")", true
	case token.LEQ:
		return "(" + b + " < " + a + ")", false
	}
	return "(" + a + " " + op.String() + " " + b + ")", true
}

func constCompare(op token.Token, x, y *ssa.Const) (bool, bool) {
	switch op {
	case token.EQL, token.NEQ, token.LSS, token.GTR, token.LEQ, token.GEQ:
	default:
		return false, false
	}
	defer func() { _ = recover() }()
	return constant.Compare(x.Value, op, y.Value), true
}

func isBoolConst(k *ssa.Const) bool {
	s := ConstStr(k)
	return s == "true" || s == "false"
}

// lessOperand orders operands of a symmetric comparison: non-constants before
// constants, otherwise lexicographic.
func lessOperand(a, b string, av, bv ssa.Value) bool {
	_, ac := av.(*ssa.Const)
	_, bc := bv.(*ssa.Const)
	if ac != bc {
		return !ac
	}
	return a < b
}

// EdgeAtom returns the atom that holds on the edge from block b to its
// succ-th successor, if b ends in an If.
func EdgeAtom(b *ssa.BasicBlock, succ int) (Atom, bool) {
	if len(b.Instrs) == 0 {
		return Atom{}, false
	}
	iff, ok := b.Instrs[len(b.Instrs)-1].(*ssa.If)
	if !ok {
		return Atom{}, false
	}
	pred, pol := NormCond(iff.Cond)
	if succ == 1 {
		pol = !pol
	}
	return Atom{Pred: pred, Truth: pol}, true
}

// EdgeSpec selects CFG edges by the atom that holds on them.
type EdgeSpec struct {
	Re    *regexp.Regexp
	Truth bool
	Label string
}

// E builds an EdgeSpec: the edge on which a predicate matching re has the
// given truth value.
func E(truth bool, re string) EdgeSpec {
	return EdgeSpec{Re: regexp.MustCompile(re), Truth: truth, Label: map[bool]string{true: "", false: "NOT "}[truth] + re}
}

func (e EdgeSpec) Match(a Atom) bool {
	return a.Truth == e.Truth && e.Re.MatchString(a.Pred)
}

// Clause is a disjunction of edge specs: the set of all edges matching any of
// them. A clause "guards" an effect when removing all its edges disconnects
// the effect from the function entry.
type Clause struct {
	Name  string
	Edges []EdgeSpec
}

func (c Clause) MatchEdge(b *ssa.BasicBlock, succ int) bool {
	a, ok := EdgeAtom(b, succ)
	if !ok {
		return false
	}
	return c.MatchAtom(a)
}

// MatchAtom reports whether the atom is one of the clause's.
func (c Clause) MatchAtom(a Atom) bool {
	for _, e := range c.Edges {
		if e.Match(a) {
			return true
		}
	}
	return false
}

// CountEdges returns how many edges of fn the clause matches.
func (c Clause) CountEdges(fn *ssa.Function) int {
	n := 0
	for _, b := range fn.Blocks {
		for i := range b.Succs {
			if c.MatchEdge(b, i) {
				n++
			}
		}
	}
	return n
}

// Walk explores fn forward at instruction granularity. It is path-sensitive
// for boolean phis (flags assigned on different branches and tested later):
// the exploration state carries, for every boolean phi, the incoming edge that
// was taken when its block was last entered, so an `If` on such a flag is
// resolved to the value the flag has on that path.
type Walk struct {
	// Stop: the instruction is recorded as reached but exploration does not
	// continue past it.
	Stop func(ssa.Instruction) bool
	// Cut: an edge on which this atom holds is not followed.
	Cut func(Atom) bool
	// CutEdge: structural cut (block, successor index); optional.
	CutEdge func(b *ssa.BasicBlock, i int) bool

	Reached  map[ssa.Instruction]bool
	CutCount int
	parent   map[*ssa.BasicBlock]*ssa.BasicBlock
	start    *ssa.BasicBlock
	phis     map[*ssa.Phi]int
	// conds: condition values that are tested more than once (as an If
	// condition or as an incoming value of a boolean phi). The truth assumed
	// for them on the current path is part of the exploration state, so a
	// path that takes `!ok` and later `ok` for the same SSA value is pruned.
	conds map[ssa.Value]int
	rep   map[ssa.Value]ssa.Value

	seedBlock *ssa.BasicBlock
	seedSucc  int
}

type wstate struct {
	b   *ssa.BasicBlock
	idx int
	env string
}

func boolPhis(fn *ssa.Function) map[*ssa.Phi]int {
	m := map[*ssa.Phi]int{}
	for _, b := range fn.Blocks {
		for _, in := range b.Instrs {
			ph, ok := in.(*ssa.Phi)
			if !ok {
				break
			}
			if bt, ok := ph.Type().Underlying().(*types.Basic); ok && bt.Info()&types.IsBoolean != 0 {
				m[ph] = len(m)
			} else if types.IsInterface(ph.Type()) && ph.Type().String() == "error" {
				// error values merged from several branches and compared with nil later
				m[ph] = len(m)
			} else if comparedInIf(ph) {
				// values merged from several branches and compared in a later If
				// (e.g. `timeout` set on one branch, tested with `timeout > 0`)
				m[ph] = len(m)
			}
		}
	}
	return m
}

func comparedInIf(ph *ssa.Phi) bool {
	refs := ph.Referrers()
	if refs == nil {
		return false
	}
	for _, r := range *refs {
		bo, ok := r.(*ssa.BinOp)
		if !ok {
			continue
		}
		switch bo.Op {
		case token.EQL, token.NEQ, token.LSS, token.GTR, token.LEQ, token.GEQ:
		default:
			continue
		}
		if br := bo.Referrers(); br != nil {
			for _, u := range *br {
				if _, ok := u.(*ssa.If); ok {
					return true
				}
			}
		}
	}
	return false
}

// pureRep maps a comparison whose operands are parameters or constants (its
// value cannot change during the activation) to one representative per
// function, so that `if p != nil {...}; ...; if p != nil {...}` is seen as
// two tests of the same condition.
func pureRep(fn *ssa.Function) map[ssa.Value]ssa.Value {
	rep := map[ssa.Value]ssa.Value{}
	first := map[string]ssa.Value{}
	pure := func(v ssa.Value) bool {
		switch x := v.(type) {
		case *ssa.Parameter, *ssa.Const:
			return true
		case *ssa.UnOp:
			// load of a parameter that was spilled to a cell because a closure reads it
			if a, ok := x.X.(*ssa.Alloc); ok && x.Op == token.MUL {
				if sv := SingleStore(a, x); sv != nil {
					_, isParam := sv.(*ssa.Parameter)
					return isParam
				}
			}
		}
		return false
	}
	for _, b := range fn.Blocks {
		for _, in := range b.Instrs {
			bo, ok := in.(*ssa.BinOp)
			if !ok || !pure(bo.X) || !pure(bo.Y) {
				continue
			}
			switch bo.Op {
			case token.EQL, token.NEQ, token.LSS, token.GTR, token.LEQ, token.GEQ:
			default:
				continue
			}
			pred, pol := NormCond(bo)
			k := pred
			_ = pol
			if f, ok := first[k]; ok {
				// same predicate: representative must have the same polarity relation; only merge identical ops
				if fb := f.(*ssa.BinOp); fb.Op == bo.Op && Desc(fb.X) == Desc(bo.X) && Desc(fb.Y) == Desc(bo.Y) {
					rep[bo] = f
				}
			} else {
				first[k] = bo
			}
		}
	}
	return rep
}

func trackedConds(fn *ssa.Function) map[ssa.Value]int {
	cnt := map[ssa.Value]int{}
	rep := pureRep(fn)
	strip := func(v ssa.Value) ssa.Value {
		for {
			if u, ok := v.(*ssa.UnOp); ok && u.Op == token.NOT {
				v = u.X
				continue
			}
			if r, ok := rep[v]; ok {
				return r
			}
			return v
		}
	}
	for _, b := range fn.Blocks {
		for _, in := range b.Instrs {
			switch x := in.(type) {
			case *ssa.If:
				cnt[strip(x.Cond)]++
			case *ssa.Phi:
				if bt, ok := x.Type().Underlying().(*types.Basic); ok && bt.Info()&types.IsBoolean != 0 {
					seen := map[ssa.Value]bool{}
					for _, e := range x.Edges {
						e = strip(e)
						if _, isC := e.(*ssa.Const); isC || seen[e] {
							continue
						}
						seen[e] = true
						cnt[e]++
					}
				}
			}
		}
	}
	m := map[ssa.Value]int{}
	// deterministic numbering
	for _, b := range fn.Blocks {
		for _, in := range b.Instrs {
			if v, ok := in.(ssa.Value); ok && cnt[v] >= 2 {
				if _, isPhi := v.(*ssa.Phi); isPhi {
					continue
				}
				if _, dup := m[v]; !dup {
					m[v] = len(m)
				}
			}
		}
	}
	for _, p := range fn.Params {
		if cnt[p] >= 2 {
			m[p] = len(m)
		}
	}
	for _, p := range fn.FreeVars {
		if cnt[p] >= 2 {
			m[p] = len(m)
		}
	}
	return m
}

// resolveCond strips negations and resolves tracked phis through env.
// It returns the resolved value and the polarity (cond == value XOR !pol).
func (w *Walk) resolveCond(c ssa.Value, env []int8) (ssa.Value, bool) {
	pol := true
	for depth := 0; depth < 16; depth++ {
		switch x := c.(type) {
		case *ssa.UnOp:
			if x.Op == token.NOT {
				pol = !pol
				c = x.X
				continue
			}
		case *ssa.Phi:
			if i, ok := w.phis[x]; ok && env[i] >= 0 && int(env[i]) < len(x.Edges) {
				c = x.Edges[env[i]]
				continue
			}
		}
		break
	}
	return c, pol
}

// resolveVal resolves a non-boolean phi through the environment (all phis
// are tracked, see allPhis).
func (w *Walk) resolveVal(v ssa.Value, env []int8) (ssa.Value, bool) {
	for depth := 0; depth < 8; depth++ {
		ph, ok := v.(*ssa.Phi)
		if !ok {
			return v, true
		}
		i, ok := w.phis[ph]
		if !ok || env[i] < 0 || int(env[i]) >= len(ph.Edges) {
			return v, false
		}
		v = ph.Edges[env[i]]
	}
	return v, false
}

func knownNonNil(v ssa.Value) bool {
	switch x := v.(type) {
	case *ssa.Alloc, *ssa.MakeMap, *ssa.MakeSlice, *ssa.MakeChan, *ssa.MakeClosure, *ssa.Function, *ssa.Global:
		return true
	case *ssa.MakeInterface:
		return true // a non-nil interface value (typed)
	case *ssa.Call:
		if f := x.Call.StaticCallee(); f != nil {
			switch f.String() {
			case "fmt.Errorf", "errors.New":
				return true
			}
		}
	}
	return false
}

// edgeAtoms computes, for block b in environment env, which successors are
// feasible and the atom holding on each.
func (w *Walk) edgeAtom(b *ssa.BasicBlock, succ int, env []int8) (Atom, bool, bool, ssa.Value, bool) {
	// returns (atom, hasAtom, feasible, resolved condition value, its truth on this edge)
	if len(b.Instrs) == 0 {
		return Atom{}, false, true, nil, false
	}
	iff, ok := b.Instrs[len(b.Instrs)-1].(*ssa.If)
	if !ok {
		return Atom{}, false, true, nil, false
	}
	v, pol := w.resolveCond(iff.Cond, env)
	if k, ok := v.(*ssa.Const); ok && isBoolConst(k) {
		val := (ConstStr(k) == "true") == pol
		if (succ == 0) == val {
			return Atom{}, false, true, nil, false
		}
		return Atom{}, false, false, nil, false
	}
	// comparisons of a value known to be non-nil with nil are decided
	if bo, ok := v.(*ssa.BinOp); ok && (bo.Op == token.EQL || bo.Op == token.NEQ) {
		var other ssa.Value
		if k, ok := bo.Y.(*ssa.Const); ok && k.Value == nil {
			other = bo.X
		} else if k, ok := bo.X.(*ssa.Const); ok && k.Value == nil {
			other = bo.Y
		}
		if other != nil {
			if pv, ok := other.(*ssa.Phi); ok {
				if i, ok := w.phis[pv]; ok && env[i] >= 0 {
					other = pv.Edges[env[i]]
				}
			}
			if rv, ok := w.resolveVal(other, env); ok {
				other = rv
			}
			if knownNonNil(other) {
				val := (bo.Op == token.NEQ) == pol // value of the condition
				if (succ == 0) == val {
					return Atom{}, false, true, nil, false
				}
				return Atom{}, false, false, nil, false
			}
		}
	}
	// truth of the resolved value v on this edge
	vt := pol
	if succ == 1 {
		vt = !vt
	}
	var pred string
	var p2 bool
	if bo, ok := v.(*ssa.BinOp); ok {
		x, _ := w.resolveVal(bo.X, env)
		y, _ := w.resolveVal(bo.Y, env)
		if x != bo.X || y != bo.Y {
			// constant comparison after substitution decides the branch
			if kx, ok := x.(*ssa.Const); ok {
				if ky, ok := y.(*ssa.Const); ok && kx.Value != nil && ky.Value != nil {
					if res, ok := constCompare(bo.Op, kx, ky); ok {
						val := res == pol
						if (succ == 0) == val {
							return Atom{}, false, true, nil, false
						}
						return Atom{}, false, false, nil, false
					}
				}
			}
			pred, p2 = normBin(bo.Op, x, y)
		}
	}
	if pred == "" {
		pred, p2 = NormCond(v)
	}
	truth := vt == p2
	return Atom{Pred: pred, Truth: truth}, true, true, v, vt
}

// FromEdge explores from the target of the si-th successor edge of block b,
// assuming the truth the edge gives to its condition (so that later tests of
// the same condition value stay consistent).
func (w *Walk) FromEdge(b *ssa.BasicBlock, si int) *Walk {
	w.seedBlock, w.seedSucc = b, si
	return w.From(b.Succs[si], 0)
}

// From explores from instruction index idx of block b (inclusive).
func (w *Walk) From(b *ssa.BasicBlock, idx int) *Walk {
	w.Reached = map[ssa.Instruction]bool{}
	w.parent = map[*ssa.BasicBlock]*ssa.BasicBlock{}
	w.start = b
	w.phis = boolPhis(b.Parent())
	w.conds = trackedConds(b.Parent())
	w.rep = pureRep(b.Parent())
	// env layout: [phi choices..., cond assumptions...]; -1 unknown; conds: 0 false, 1 true
	env0 := make([]int8, len(w.phis)+len(w.conds))
	for i := range env0 {
		env0[i] = -1
	}
	np := len(w.phis)
	// facts implied by dominating branches: if the start block is only reachable
	// through one successor edge of a dominating If, that If's condition has
	// the corresponding truth value here
	for d := b; d != nil; d = d.Idom() {
		p := d.Idom()
		if p == nil || len(p.Instrs) == 0 {
			continue
		}
		if _, ok := p.Instrs[len(p.Instrs)-1].(*ssa.If); !ok || len(p.Succs) != 2 {
			continue
		}
		for si := 0; si < 2; si++ {
			s0, s1 := p.Succs[si], p.Succs[1-si]
			if s0 != s1 && len(s0.Preds) == 1 && s0.Dominates(b) && !s1.Dominates(b) {
				if _, has, _, cv, cvt := w.edgeAtom(p, si, env0); has && cv != nil {
					if r, ok := w.rep[cv]; ok {
						cv = r
					}
					if k, ok := w.conds[cv]; ok && env0[np+k] < 0 {
						if cvt {
							env0[np+k] = 1
						} else {
							env0[np+k] = 0
						}
					}
				}
			}
		}
	}
	if w.seedBlock != nil {
		if _, has, _, cv, cvt := w.edgeAtom(w.seedBlock, w.seedSucc, env0); has && cv != nil {
			if r, ok := w.rep[cv]; ok {
				cv = r
			}
			if k, ok := w.conds[cv]; ok {
				if cvt {
					env0[np+k] = 1
				} else {
					env0[np+k] = 0
				}
			}
		}
		// phis of the start block take the value of the seeding edge
		pi := predIndex(w.seedBlock, w.seedSucc, b)
		for _, in := range b.Instrs {
			ph, ok := in.(*ssa.Phi)
			if !ok {
				break
			}
			if k, ok := w.phis[ph]; ok && pi < len(ph.Edges) && ph.Edges[pi] != ssa.Value(ph) {
				env0[k] = int8(pi)
			}
		}
	}
	type item struct {
		b   *ssa.BasicBlock
		idx int
		env []int8
	}
	seen := map[wstate]bool{}
	work := []item{{b, idx, env0}}
	seen[wstate{b, idx, string(i8s(env0))}] = true
	for len(work) > 0 {
		it := work[0]
		work = work[1:]
		stopped := false
		for i := it.idx; i < len(it.b.Instrs); i++ {
			in := it.b.Instrs[i]
			w.Reached[in] = true
			if w.Stop != nil && w.Stop(in) {
				stopped = true
				break
			}
		}
		if stopped {
			continue
		}
		for si, s := range it.b.Succs {
			atom, has, feasible, cv, cvt := w.edgeAtom(it.b, si, it.env)
			if !feasible {
				continue
			}
			ci := -1
			if cv != nil {
				if r, ok := w.rep[cv]; ok {
					cv = r
				}
				if k, ok := w.conds[cv]; ok {
					ci = np + k
					if a := it.env[ci]; a >= 0 && (a == 1) != cvt {
						continue // contradicts what this path already assumed for the same value
					}
				}
			}
			if has && w.Cut != nil && w.Cut(atom) {
				w.CutCount++
				continue
			}
			if w.CutEdge != nil && w.CutEdge(it.b, si) {
				w.CutCount++
				continue
			}
			// new environment: phis of s take the edge coming from it.b
			env := it.env
			first := true
			if ci >= 0 && it.env[ci] < 0 {
				env = append([]int8(nil), it.env...)
				first = false
				if cvt {
					env[ci] = 1
				} else {
					env[ci] = 0
				}
			}
			// entering s re-evaluates the condition values defined in s: forget
			// what was assumed about them (loops)
			for _, in := range s.Instrs {
				if v, ok := in.(ssa.Value); ok {
					if k, ok := w.conds[v]; ok && env[np+k] >= 0 {
						if first {
							env = append([]int8(nil), it.env...)
							first = false
						}
						env[np+k] = -1
					}
				}
			}
			if len(w.phis) > 0 {
				pi := predIndex(it.b, si, s)
				for _, in := range s.Instrs {
					ph, ok := in.(*ssa.Phi)
					if !ok {
						break
					}
					if k, ok := w.phis[ph]; ok {
						if pi < len(ph.Edges) && ph.Edges[pi] == ssa.Value(ph) {
							continue // loop-carried: the flag keeps the value it had
						}
						if first {
							env = append([]int8(nil), it.env...)
							first = false
						}
						env[k] = int8(pi)
					}
				}
			}
			st := wstate{s, 0, string(i8s(env))}
			if seen[st] {
				continue
			}
			seen[st] = true
			if _, ok := w.parent[s]; !ok && s != w.start {
				w.parent[s] = it.b
			}
			work = append(work, item{s, 0, env})
		}
	}
	return w
}

func i8s(e []int8) []byte {
	b := make([]byte, len(e))
	for i, x := range e {
		b[i] = byte(x + 1)
	}
	return b
}

// predIndex finds the index in s.Preds corresponding to the si-th successor
// edge of b.
func predIndex(b *ssa.BasicBlock, si int, s *ssa.BasicBlock) int {
	// occurrence number of s among b.Succs[0..si]
	occ := 0
	for i := 0; i < si; i++ {
		if b.Succs[i] == s {
			occ++
		}
	}
	for i, p := range s.Preds {
		if p == b {
			if occ == 0 {
				return i
			}
			occ--
		}
	}
	return 0
}

// PathTo renders the block path from the walk's start to the block of in as a
// list of positions (first positioned instruction of each block).
func (w *Walk) PathTo(p *Prog, in ssa.Instruction) []string {
	var blocks []*ssa.BasicBlock
	guard := 0
	for b := in.Block(); b != nil && guard < 10000; b = w.parent[b] {
		guard++
		blocks = append(blocks, b)
		if b == w.start {
			break
		}
	}
	var out []string
	for i := len(blocks) - 1; i >= 0; i-- {
		pos := token.NoPos
		for _, x := range blocks[i].Instrs {
			if x.Pos().IsValid() {
				pos = x.Pos()
				break
			}
		}
		s := p.Pos(pos)
		if len(out) == 0 || out[len(out)-1] != s {
			out = append(out, s)
		}
	}
	return out
}

// Entry returns the entry block of fn.
func Entry(fn *ssa.Function) *ssa.BasicBlock { return fn.Blocks[0] }

// Instrs returns all instructions of fn in block order, skipping the recover
// block.
func Instrs(fn *ssa.Function) []ssa.Instruction {
	var out []ssa.Instruction
	for _, b := range fn.Blocks {
		out = append(out, b.Instrs...)
	}
	return out
}

// FindInstrs returns the instructions of fn whose InstrDesc matches re.
func FindInstrs(fn *ssa.Function, re *regexp.Regexp) []ssa.Instruction {
	var out []ssa.Instruction
	for _, in := range Instrs(fn) {
		if re.MatchString(InstrDesc(in)) {
			out = append(out, in)
		}
	}
	return out
}

// IndexOf returns the index of in within its block.
func IndexOf(in ssa.Instruction) int {
	for i, x := range in.Block().Instrs {
		if x == in {
			return i
		}
	}
	return -1
}

// GuardedBy reports whether every path from fn's entry to the instruction
// crosses an edge of the clause. When not, the returned walk gives a witness.
func GuardedBy(fn *ssa.Function, in ssa.Instruction, c Clause) (bool, *Walk) {
	w := (&Walk{Cut: c.MatchAtom}).From(Entry(fn), 0)
	return !w.Reached[in], w
}

// ReachableWithout reports whether target can be reached from fn's entry when
// the given edges are removed.
func ReachableFromEntry(fn *ssa.Function, in ssa.Instruction) bool {
	w := (&Walk{}).From(Entry(fn), 0)
	return w.Reached[in]
}

// AtomsOf lists every distinct atom of fn (for diagnostics / evidence).
func AtomsOf(fn *ssa.Function) []string {
	set := map[string]bool{}
	for _, b := range fn.Blocks {
		if a, ok := EdgeAtom(b, 0); ok {
			set[a.Pred] = true
		}
	}
	var out []string
	for s := range set {
		out = append(out, s)
	}
	sort.Strings(out)
	return out
}

// Exits returns the Return instructions (and, if withPanic, Panic
// instructions) of fn.
func Exits(fn *ssa.Function, withPanic bool) []ssa.Instruction {
	var out []ssa.Instruction
	for _, in := range Instrs(fn) {
		switch in.(type) {
		case *ssa.Return:
			out = append(out, in)
		case *ssa.Panic:
			if withPanic {
				out = append(out, in)
			}
		}
	}
	return out
}

// MustPass reports whether every path from (after) start to a Return of fn
// executes an instruction satisfying rel. A `defer` of a matching call counts
// from the point the defer statement executes. Returns the offending exit and
// a walk for the witness when violated.
func MustPass(fn *ssa.Function, start ssa.Instruction, rel func(ssa.Instruction) bool) (bool, ssa.Instruction, *Walk) {
	var b *ssa.BasicBlock
	idx := 0
	if start == nil {
		b = Entry(fn)
	} else {
		b = start.Block()
		idx = IndexOf(start) + 1
	}
	w := (&Walk{Stop: rel}).From(b, idx)
	for _, ex := range Exits(fn, false) {
		if w.Reached[ex] && !rel(ex) {
			return false, ex, w
		}
	}
	return true, nil, w
}

// DescHas is a small helper: does the descriptor contain the substring.
func DescHas(in ssa.Instruction, sub string) bool { return strings.Contains(InstrDesc(in), sub) }
