package ir

import (
	"fmt"
	"regexp"
	"go/constant"
	"go/token"
	"go/types"
	"sort"
	"strings"

	"golang.org/x/tools/go/ssa"
)

// Desc renders an SSA value as a structural access path. It is independent of
// local variable names for register values (they are described by what they
// were computed from) and of source positions. Parameters and captured
// variables are described by name ("%msg", "^caller"), address-taken locals by
// their declared name ("local:again").
//
//	%msg.Options["acknowledge"].(bool),ok#0
//	call:wamp.AsString(%msg.Options["match"])#0
//	range(%sub.subscribers)#k
func Desc(v ssa.Value) string {
	return descN(v, 0, map[ssa.Value]bool{})
}

const maxDescDepth = 40

var inlTmp = regexp.MustCompile(`^_inl\d+_([A-Za-z]\w*)$`)

var fieldChainRe = regexp.MustCompile(`(\.&\w+)+$`)

func descN(v ssa.Value, depth int, seen map[ssa.Value]bool) string {
	if v == nil {
		return "<nil>"
	}
	if depth > maxDescDepth {
		return "…"
	}
	d := func(x ssa.Value) string { return descN(x, depth+1, seen) }
	switch v := v.(type) {
	case *ssa.Parameter:
		return "%" + canonParam(v)
	case *ssa.FreeVar:
		return "^" + canonFreeVar(v)
	case *ssa.Const:
		return ConstStr(v)
	case *ssa.Global:
		return "g:" + globalName(v)
	case *ssa.Function:
		return "fn:" + CalleeName(v)
	case *ssa.Builtin:
		return "builtin:" + v.Name()
	case *ssa.Alloc:
		c := v.Comment
		switch {
		case c == "complit" || c == "new" || c == "":
			base := "new(" + TypeStr(deref(v.Type())) + ")"
			// small struct literals (keys such as requestID) are rendered with
			// their fields so that different literals of one type are distinct
			if st, ok := deref(v.Type()).Underlying().(*types.Struct); ok && st.NumFields() <= 3 && unexportedNamed(deref(v.Type())) {
				lf := LiteralFields(v)
				if len(lf) > 0 {
					var parts []string
					for i := 0; i < st.NumFields(); i++ {
						vals := lf[st.Field(i).Name()]
						if len(vals) == 1 {
							parts = append(parts, st.Field(i).Name()+"="+d(vals[0]))
						} else if len(vals) > 1 {
							return base
						}
					}
					return base + "{" + strings.Join(parts, ",") + "}"
				}
			}
			return base
		case strings.HasSuffix(c, "slicelit") || c == "varargs" || c == "makeslice":
			return "newarr(" + TypeStr(deref(v.Type())) + ")"
		default:
			return "&local:" + canonLocal(v)
		}
	case *ssa.FieldAddr:
		return d(v.X) + ".&" + fieldName(v.X.Type(), v.Field)
	case *ssa.Field:
		// field of a whole-value load of a small key literal built in this function: the value it was built with
		if ld, ok := v.X.(*ssa.UnOp); ok && ld.Op == token.MUL {
			if a, ok := ld.X.(*ssa.Alloc); ok && (a.Comment == "complit" || a.Comment == "new" || a.Comment == "") && !a.Heap {
				if st, ok := deref(a.Type()).Underlying().(*types.Struct); ok && st.NumFields() <= 3 && unexportedNamed(deref(a.Type())) {
					if vals := LiteralFields(a)[fieldName(v.X.Type(), v.Field)]; len(vals) == 1 && onlyFieldUses(a) {
						return d(vals[0])
					}
				}
			}
		}
		return d(v.X) + "." + fieldName(v.X.Type(), v.Field)
	case *ssa.IndexAddr:
		return d(v.X) + ".&[" + d(v.Index) + "]"
	case *ssa.Index:
		return d(v.X) + "[" + d(v.Index) + "]"
	case *ssa.Lookup:
		s := d(v.X) + "[" + d(v.Index) + "]"
		if v.CommaOk {
			s += ",ok"
		}
		return s
	case *ssa.UnOp:
		switch v.Op {
		case token.MUL:
			if a, ok := v.X.(*ssa.Alloc); ok {
				if sv := SingleStore(a, v); sv != nil {
					return d(sv)
				}
				if sv := blockLocalStore(a, v); sv != nil {
					return d(sv)
				}
			}
			if fa, ok := v.X.(*ssa.FieldAddr); ok {
				// a field read back from a small key literal built in this function (requestID{session: s, request: r}.request)
				// is the value it was built with
				if a, ok := fa.X.(*ssa.Alloc); ok && (a.Comment == "complit" || a.Comment == "new" || a.Comment == "") && !a.Heap {
					if st, ok := deref(a.Type()).Underlying().(*types.Struct); ok && st.NumFields() <= 3 && unexportedNamed(deref(a.Type())) {
						if vals := LiteralFields(a)[fieldName(fa.X.Type(), fa.Field)]; len(vals) == 1 && onlyFieldUses(a) {
							return d(vals[0])
						}
					}
				}
				if a, ok := fa.X.(*ssa.Alloc); ok && a.Comment != "complit" && a.Comment != "new" {
					if sv := SingleStore(a, v); sv != nil {
						if kv := keyLitField(sv, fieldName(fa.X.Type(), fa.Field)); kv != nil {
							return d(kv)
						}
						return d(sv) + "." + fieldName(fa.X.Type(), fa.Field)
					}
				}
			}
			inner := d(v.X)
			// load through an address: x.&f -> x.f (also chains x.&f.&g -> x.f.g) ; &local:n -> local:n
			if m := fieldChainRe.FindStringIndex(inner); m != nil {
				return inner[:m[0]] + strings.ReplaceAll(inner[m[0]:], ".&", ".")
			}
			if strings.HasSuffix(inner, "]") {
				if i := strings.LastIndex(inner, ".&["); i >= 0 && balanced(inner[i+2:]) {
					return inner[:i] + inner[i+2:]
				}
			}
			if strings.HasPrefix(inner, "&local:") {
				return inner[1:]
			}
			if strings.HasPrefix(inner, "^") && !strings.ContainsAny(inner, ".[(") {
				// captured variable cell
				return inner
			}
			return "*" + inner
		case token.NOT:
			return "!" + d(v.X)
		case token.ARROW:
			s := "<-" + d(v.X)
			if v.CommaOk {
				s += ",ok"
			}
			return s
		case token.SUB:
			return "-" + d(v.X)
		default:
			return v.Op.String() + d(v.X)
		}
	case *ssa.BinOp:
		return "(" + d(v.X) + " " + v.Op.String() + " " + d(v.Y) + ")"
	case *ssa.Extract:
		t := d(v.Tuple)
		// name the components of well-known tuples
		switch tup := v.Tuple.(type) {
		case *ssa.Next:
			if v.Index == 1 {
				return strings.TrimPrefix(t, "next:") + "#k"
			}
			if v.Index == 2 {
				return strings.TrimPrefix(t, "next:") + "#v"
			}
			return t + "#more"
		case *ssa.Lookup, *ssa.TypeAssert, *ssa.UnOp:
			_ = tup
			return fmt.Sprintf("%s#%d", t, v.Index)
		}
		return fmt.Sprintf("%s#%d", t, v.Index)
	case *ssa.Call:
		return "call:" + callDesc(&v.Call, d)
	case *ssa.TypeAssert:
		s := d(v.X) + ".(" + TypeStr(v.AssertedType) + ")"
		if v.CommaOk {
			s += ",ok"
		}
		return s
	case *ssa.MakeInterface:
		return d(v.X)
	case *ssa.ChangeInterface:
		return d(v.X)
	case *ssa.ChangeType:
		return d(v.X)
	case *ssa.Convert:
		return "conv:" + TypeStr(v.Type()) + "(" + d(v.X) + ")"
	case *ssa.MultiConvert:
		return "conv:" + TypeStr(v.Type()) + "(" + d(v.X) + ")"
	case *ssa.SliceToArrayPointer:
		return d(v.X)
	case *ssa.Phi:
		if seen[v] {
			return "phi↺"
		}
		seen[v] = true
		defer delete(seen, v)
		var parts []string
		for _, e := range v.Edges {
			parts = append(parts, d(e))
		}
		sort.Strings(parts)
		parts = uniq(parts)
		if len(parts) == 1 {
			return parts[0]
		}
		return "phi(" + strings.Join(parts, "|") + ")"
	case *ssa.Range:
		return "range(" + d(v.X) + ")"
	case *ssa.Next:
		return "next:" + d(v.Iter)
	case *ssa.MakeMap:
		return "makemap(" + TypeStr(v.Type()) + ")"
	case *ssa.MakeSlice:
		return "makeslice(" + TypeStr(v.Type()) + ")"
	case *ssa.MakeChan:
		return "makechan(" + TypeStr(v.Type()) + "," + d(v.Size) + ")"
	case *ssa.MakeClosure:
		return "closure:" + CalleeName(v.Fn.(*ssa.Function))
	case *ssa.Slice:
		s := d(v.X) + "["
		if v.Low != nil {
			s += d(v.Low)
		}
		s += ":"
		if v.High != nil {
			s += d(v.High)
		}
		return s + "]"
	case *ssa.Select:
		var parts []string
		for _, st := range v.States {
			if st.Dir == types.SendOnly {
				parts = append(parts, "send:"+d(st.Chan)+"<-"+d(st.Send))
			} else {
				parts = append(parts, "recv:"+d(st.Chan))
			}
		}
		if !v.Blocking {
			parts = append(parts, "default")
		}
		return "select{" + strings.Join(parts, ";") + "}"
	}
	return fmt.Sprintf("?%T", v)
}

func balanced(s string) bool {
	n := 0
	for i, c := range s {
		switch c {
		case '[':
			n++
		case ']':
			n--
			if n == 0 && i != len(s)-1 {
				return false
			}
		}
	}
	return n == 0
}

func uniq(s []string) []string {
	var out []string
	for i, x := range s {
		if i == 0 || x != s[i-1] {
			out = append(out, x)
		}
	}
	return out
}

func deref(t types.Type) types.Type {
	if p, ok := t.Underlying().(*types.Pointer); ok {
		return p.Elem()
	}
	return t
}

func fieldName(t types.Type, i int) string { return FieldName(t, i) }

// FieldName is the name of field i of (a pointer to) a struct type as the rules know it: for named struct types of
// the repository the field names are canonical (see canonMap), so that renaming an unexported field — or reordering
// fields — changes no descriptor.
func FieldName(t types.Type, i int) string {
	t = deref(t)
	st, ok := t.Underlying().(*types.Struct)
	if !ok || i >= st.NumFields() {
		return fmt.Sprintf("f%d", i)
	}
	if n, ok := t.(*types.Named); ok && n.Obj().Pkg() != nil {
		if rel := relPkg(n.Obj().Pkg()); rel != "" {
			key := "type:" + rel + "." + n.Obj().Name()
			if cn, ok := Canon[key]; ok {
				m := canonFieldMaps[key]
				if m == nil {
					cur := make([]string, st.NumFields())
					for k := range cur {
						cur[k] = st.Field(k).Name()
					}
					m = canonMap(cur, cn.Params)
					if m == nil {
						m = cur
					}
					if canonFieldMaps == nil {
						canonFieldMaps = map[string][]string{}
					}
					canonFieldMaps[key] = m
				}
				if i < len(m) {
					return m[i]
				}
			}
		}
	}
	return st.Field(i).Name()
}

var canonFieldMaps map[string][]string

func globalName(g *ssa.Global) string {
	rel := ""
	if g.Pkg != nil {
		rel = relPkg(g.Pkg.Pkg)
		if rel == "" {
			rel = g.Pkg.Pkg.Path()
		}
	}
	return rel + "." + g.Name()
}

// ConstStr renders a constant: strings quoted, nil as "nil".
func ConstStr(c *ssa.Const) string {
	if c.Value == nil {
		return "nil"
	}
	switch c.Value.Kind() {
	case constant.String:
		return fmt.Sprintf("%q", constant.StringVal(c.Value))
	case constant.Bool:
		if constant.BoolVal(c.Value) {
			return "true"
		}
		return "false"
	default:
		return c.Value.ExactString()
	}
}

// CallDesc renders a call's callee and arguments.
func CallDesc(c *ssa.CallCommon) string {
	return callDesc(c, func(v ssa.Value) string { return descN(v, 1, map[ssa.Value]bool{}) })
}

func callDesc(c *ssa.CallCommon, d func(ssa.Value) string) string {
	var args []string
	for _, a := range c.Args {
		args = append(args, d(a))
	}
	return CalleeOf(c) + "(" + strings.Join(args, ", ") + ")"
}

// CalleeOf names the target of a call: a static callee by CalleeName, an
// interface method as "invoke:pkg.Iface.Method[recvdesc]", a builtin as
// "builtin:name", a dynamic call as "dyn:<desc>".
func CalleeOf(c *ssa.CallCommon) string {
	if c.IsInvoke() {
		recvT := TypeStr(c.Value.Type())
		return "invoke:" + recvT + "." + c.Method.Name() + "[" + Desc(c.Value) + "]"
	}
	switch f := c.Value.(type) {
	case *ssa.Function:
		return CalleeName(f)
	case *ssa.Builtin:
		return "builtin:" + f.Name()
	case *ssa.MakeClosure:
		return CalleeName(f.Fn.(*ssa.Function))
	}
	return "dyn:" + Desc(c.Value)
}

// InstrDesc renders an instruction for effect matching.
func InstrDesc(in ssa.Instruction) string {
	switch in := in.(type) {
	case *ssa.Call:
		return "call:" + CallDesc(&in.Call)
	case *ssa.Go:
		return "go:" + CallDesc(&in.Call)
	case *ssa.Defer:
		return "defer:" + CallDesc(&in.Call)
	case *ssa.Send:
		return "send:" + Desc(in.Chan) + "<-" + Desc(in.X)
	case *ssa.Select:
		return Desc(in)
	case *ssa.MapUpdate:
		return "mapupdate:" + Desc(in.Map) + "[" + Desc(in.Key) + "]=" + Desc(in.Value)
	case *ssa.Store:
		return "store:" + Desc(in.Addr) + "=" + Desc(in.Val)
	case *ssa.Return:
		var parts []string
		for _, r := range in.Results {
			parts = append(parts, Desc(r))
		}
		return "return:" + strings.Join(parts, ", ")
	case *ssa.Panic:
		return "panic:" + Desc(in.X)
	case *ssa.If:
		return "if:" + Desc(in.Cond)
	case *ssa.RunDefers:
		return "rundefers"
	case *ssa.Jump:
		return "jump"
	case ssa.Value:
		return "val:" + Desc(in)
	}
	return fmt.Sprintf("?%T", in)
}

// LiteralFields collects, for an allocation of a struct (composite literal or
// new + field stores), the values stored to each field anywhere in the
// function. Key: field name.
func LiteralFields(a ssa.Value) map[string][]ssa.Value {
	out := map[string][]ssa.Value{}
	refs := a.Referrers()
	if refs == nil {
		return out
	}
	for _, r := range *refs {
		fa, ok := r.(*ssa.FieldAddr)
		if !ok {
			continue
		}
		name := fieldName(fa.X.Type(), fa.Field)
		if fr := fa.Referrers(); fr != nil {
			for _, u := range *fr {
				if st, ok := u.(*ssa.Store); ok && st.Addr == fa {
					out[name] = append(out[name], st.Val)
				}
			}
		}
	}
	return out
}

// keyLitField: x is a struct value loaded from a small key literal built in this function (possibly through
// single-assignment locals): the value the literal's field was built with, else nil.
func keyLitField(x ssa.Value, field string) ssa.Value {
	for i := 0; i < 4; i++ {
		ld, ok := x.(*ssa.UnOp)
		if !ok || ld.Op != token.MUL {
			return nil
		}
		a, ok := ld.X.(*ssa.Alloc)
		if !ok {
			return nil
		}
		if a.Comment == "complit" || a.Comment == "new" || a.Comment == "" {
			if st, ok := deref(a.Type()).Underlying().(*types.Struct); ok && st.NumFields() <= 3 && unexportedNamed(deref(a.Type())) {
				if vals := LiteralFields(a)[field]; len(vals) == 1 && onlyFieldUses(a) {
					return vals[0]
				}
			}
			return nil
		}
		sv := SingleStore(a, ld)
		if sv == nil {
			return nil
		}
		x = sv
	}
	return nil
}

// onlyFieldUses: the allocation is used only through field addresses (stored to once each, see LiteralFields) and
// whole-value loads: nothing else can write its fields.
func onlyFieldUses(a *ssa.Alloc) bool {
	refs := a.Referrers()
	if refs == nil {
		return false
	}
	for _, r := range *refs {
		switch x := r.(type) {
		case *ssa.FieldAddr:
			if fr := x.Referrers(); fr != nil {
				for _, u := range *fr {
					switch y := u.(type) {
					case *ssa.Store:
						if y.Addr != x {
							return false
						}
					case *ssa.UnOp:
						if y.Op != token.MUL {
							return false
						}
					case *ssa.DebugRef:
					default:
						return false
					}
				}
			}
		case *ssa.UnOp:
			if x.Op != token.MUL {
				return false
			}
		case *ssa.DebugRef:
		default:
			return false
		}
	}
	return true
}

// StripIface removes MakeInterface / ChangeInterface / ChangeType wrappers.
func StripIface(v ssa.Value) ssa.Value {
	for {
		switch x := v.(type) {
		case *ssa.MakeInterface:
			v = x.X
		case *ssa.ChangeInterface:
			v = x.X
		case *ssa.ChangeType:
			v = x.X
		default:
			return v
		}
	}
}

// AllocatedType returns the (module-relative) name of the struct type a value
// points to when the value is a fresh allocation (through interface wrappers
// and phis whose edges agree); "" otherwise.
func AllocatedType(v ssa.Value) string {
	v = StripIface(v)
	switch x := v.(type) {
	case *ssa.Alloc:
		return TypeStr(deref(x.Type()))
	case *ssa.Phi:
		t := ""
		for _, e := range x.Edges {
			et := AllocatedType(e)
			if et == "" || (t != "" && et != t) {
				return ""
			}
			t = et
		}
		return t
	}
	return ""
}

// StaticType returns the type of the value below interface wrappers.
func StaticType(v ssa.Value) string {
	return TypeStr(StripIface(v).Type())
}

// SingleStore returns the value held by a local variable cell at the given
// load when that is statically unique: the cell has exactly one store in its
// function, no closure writes to it, and the store dominates the load. This
// sees through parameters and locals that go/ssa spills to memory because a
// closure captures them.
func SingleStore(a *ssa.Alloc, load ssa.Instruction) ssa.Value {
	refs := a.Referrers()
	if refs == nil {
		return nil
	}
	var st *ssa.Store
	for _, r := range *refs {
		switch r := r.(type) {
		case *ssa.Store:
			if r.Addr == a {
				if st != nil {
					return nil
				}
				st = r
			}
		case *ssa.MakeClosure:
			for i, b := range r.Bindings {
				if b == a && closureWrites(r.Fn.(*ssa.Function), i, 0) {
					return nil
				}
			}
		}
	}
	if st == nil {
		return nil
	}
	if load == nil {
		return st.Val
	}
	sb, lb := st.Block(), load.Block()
	if sb == lb {
		if IndexOf(st) < IndexOf(load) {
			return st.Val
		}
		return nil
	}
	if sb.Dominates(lb) {
		return st.Val
	}
	return nil
}

func closureWrites(fn *ssa.Function, fvIdx int, depth int) bool {
	if depth > 4 || fvIdx >= len(fn.FreeVars) {
		return true
	}
	fv := fn.FreeVars[fvIdx]
	refs := fv.Referrers()
	if refs == nil {
		return false
	}
	for _, r := range *refs {
		switch r := r.(type) {
		case *ssa.Store:
			if r.Addr == fv {
				return true
			}
		case *ssa.MakeClosure:
			for i, b := range r.Bindings {
				if b == fv && closureWrites(r.Fn.(*ssa.Function), i, depth+1) {
					return true
				}
			}
		}
	}
	return false
}

// ResolveFreeVar maps a captured variable of a closure to the cell (Alloc or
// outer FreeVar) it was bound to at the closure's unique creation site, or nil.
func ResolveFreeVar(fv *ssa.FreeVar) ssa.Value {
	fn := fv.Parent()
	idx := -1
	for i, x := range fn.FreeVars {
		if x == fv {
			idx = i
		}
	}
	par := fn.Parent()
	if idx < 0 || par == nil {
		return nil
	}
	var found ssa.Value
	for _, b := range par.Blocks {
		for _, in := range b.Instrs {
			if mc, ok := in.(*ssa.MakeClosure); ok && mc.Fn == fn {
				if found != nil {
					return nil
				}
				found = mc.Bindings[idx]
			}
		}
	}
	return found
}

// CapturedValue resolves a captured variable to the single value stored in
// its cell in the enclosing function (see SingleStore), or nil.
func CapturedValue(fv *ssa.FreeVar) ssa.Value {
	cell := ResolveFreeVar(fv)
	switch c := cell.(type) {
	case *ssa.Alloc:
		return SingleStore(c, nil)
	case *ssa.FreeVar:
		return CapturedValue(c)
	}
	return nil
}

func unexportedNamed(t types.Type) bool {
	n, ok := t.(*types.Named)
	return ok && !n.Obj().Exported()
}

// blockLocalStore: for a local with several stores, the value a load sees
// when exactly one store reaches it (flow-sensitive reaching definitions over
// the CFG). When closures write the cell, any call or channel operation on
// the way counts as an unknown definition. E.g. `err = f(); if err != nil`.
func blockLocalStore(a *ssa.Alloc, load ssa.Instruction) ssa.Value {
	shared := false
	if refs := a.Referrers(); refs != nil {
		for _, r := range *refs {
			if mc, ok := r.(*ssa.MakeClosure); ok {
				for i, b := range mc.Bindings {
					if b == a && closureWrites(mc.Fn.(*ssa.Function), i, 0) {
						shared = true
					}
				}
			}
		}
	}
	var found ssa.Value
	unknown := false
	seen := map[*ssa.BasicBlock]bool{}
	var scan func(b *ssa.BasicBlock, from int)
	scan = func(b *ssa.BasicBlock, from int) {
		if unknown {
			return
		}
		for i := from; i >= 0; i-- {
			switch x := b.Instrs[i].(type) {
			case *ssa.Store:
				if x.Addr == a {
					if found != nil && found != x.Val {
						unknown = true
					}
					found = x.Val
					return
				}
			case *ssa.Call, *ssa.Send, *ssa.Select, *ssa.Go, *ssa.Defer, *ssa.RunDefers:
				if shared {
					unknown = true
					return
				}
			case *ssa.UnOp:
				if shared && x.Op == token.ARROW {
					unknown = true
					return
				}
			}
		}
		if len(b.Preds) == 0 {
			unknown = true // reaches the entry: zero value
			return
		}
		for _, p := range b.Preds {
			if !seen[p] {
				seen[p] = true
				scan(p, len(p.Instrs)-1)
			}
		}
	}
	scan(load.Block(), IndexOf(load)-1)
	if unknown {
		return nil
	}
	return found
}

// AllocatedTypeOr returns AllocatedType(v) or, failing that, the static type
// below interface wrappers.
func AllocatedTypeOr(v ssa.Value) string {
	if t := AllocatedType(v); t != "" {
		return t
	}
	return StaticType(v)
}

// Canon holds the parameter and captured-variable names the rules were
// written against, per function (short name): descriptors use these names by
// position, so that renaming a parameter or a captured variable in the
// repository does not change any descriptor. A function whose parameter count
// differs from the frozen one falls back to the current names.
var Canon = map[string]CanonNames{}

type CanonNames struct {
	Params   []string `json:"params"`
	FreeVars []string `json:"freevars"`
	Locals   []string `json:"locals"`
}

// NamedLocals lists the address-taken named locals of fn in order.
func NamedLocals(fn *ssa.Function) []*ssa.Alloc {
	var out []*ssa.Alloc
	for _, b := range fn.Blocks {
		for _, in := range b.Instrs {
			if a, ok := in.(*ssa.Alloc); ok {
				c := a.Comment
				if c == "complit" || c == "new" || c == "" || strings.HasSuffix(c, "slicelit") || c == "varargs" || c == "makeslice" || strings.HasPrefix(c, "_inl") {
					continue
				}
				out = append(out, a)
			}
		}
	}
	return out
}

// canonMap maps the current names (in order) onto the frozen names: a name that is still present keeps itself
// (so reordering — captured variables are numbered by first use, locals by allocation order — changes nothing);
// the names that disappeared were renamed and are matched, in order, with the frozen names that are no longer
// present. Different counts: no mapping (current names are used).
func canonMap(cur, frozen []string) []string {
	if len(cur) != len(frozen) {
		return nil
	}
	// temporaries of the normalisation pass carry the name of the parameter they bind (_inl<N>_<name>)
	cur = append([]string(nil), cur...)
	for i, c := range cur {
		if m := inlTmp.FindStringSubmatch(c); m != nil {
			cur[i] = m[1]
		}
	}
	count := func(xs []string) map[string]int {
		m := map[string]int{}
		for _, x := range xs {
			m[x]++
		}
		return m
	}
	cc, fc := count(cur), count(frozen)
	var freeFrozen []string
	for _, f := range frozen {
		if cc[f] > 0 {
			cc[f]--
			continue
		}
		freeFrozen = append(freeFrozen, f)
	}
	out := make([]string, len(cur))
	k := 0
	for i, c := range cur {
		if fc[c] > 0 {
			fc[c]--
			out[i] = c
			continue
		}
		if k < len(freeFrozen) {
			out[i] = freeFrozen[k]
			k++
		} else {
			out[i] = c
		}
	}
	return out
}

func canonLocal(a *ssa.Alloc) string {
	fn := a.Parent()
	if cn, ok := Canon[ShortName(fn)]; ok && len(cn.Locals) > 0 {
		ls := NamedLocals(fn)
		cur := make([]string, len(ls))
		for i, q := range ls {
			cur[i] = q.Comment
		}
		if m := canonMap(cur, cn.Locals); m != nil {
			for i, q := range ls {
				if q == a {
					return m[i]
				}
			}
		}
	}
	if m := inlTmp.FindStringSubmatch(a.Comment); m != nil {
		return m[1] // a temporary of the normalisation pass stands for the parameter it binds
	}
	return a.Comment
}

func canonParam(p *ssa.Parameter) string {
	fn := p.Parent()
	if cn, ok := Canon[ShortName(fn)]; ok && len(cn.Params) == len(fn.Params) {
		for i, q := range fn.Params {
			if q == p {
				return cn.Params[i]
			}
		}
	}
	return p.Name()
}

func canonFreeVar(v *ssa.FreeVar) string {
	fn := v.Parent()
	if cn, ok := Canon[ShortName(fn)]; ok {
		cur := make([]string, len(fn.FreeVars))
		for i, q := range fn.FreeVars {
			cur[i] = q.Name()
		}
		if m := canonMap(cur, cn.FreeVars); m != nil {
			for i, q := range fn.FreeVars {
				if q == v {
					return m[i]
				}
			}
		}
	}
	return v.Name()
}
