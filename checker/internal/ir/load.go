// Package ir loads gammazero/nexus from its working tree, type-checks it,
// builds SSA for all packages and offers the helpers the rule engines share:
// function lookup, value descriptors (access paths), predicate atoms on
// CFG edges, edge-cut reachability, call graph and goroutine roots.
package ir

import (
	"fmt"
	"go/ast"
	"go/token"
	"go/types"
	"os"
	"sort"
	"strings"

	"golang.org/x/tools/go/packages"
	"golang.org/x/tools/go/ssa"
	"golang.org/x/tools/go/ssa/ssautil"
)

// ModPath is the module path of the repository under analysis.
const ModPath = "github.com/gammazero/nexus/v3"

// Prog is the loaded, type-checked, SSA-built program.
type Prog struct {
	Dir   string
	Fset  *token.FileSet
	Pkgs  []*packages.Package          // nexus packages only (non-test)
	ByRel map[string]*packages.Package // "router" -> pkg
	SSA   *ssa.Program
	SPkg  map[string]*ssa.Package // "router" -> ssa pkg
	// Funcs holds every function (incl. closures and methods) whose package
	// is a nexus package, keyed by short name, e.g. "router.(*dealer).syncCall",
	// "router.(*dealer).call$1", "router.prepareEvent".
	Funcs map[string]*ssa.Function
	// Notes records what the normalisation pass did (helpers inlined, or why not).
	Notes []string
	// Inlined lists the helpers all of whose call sites were inlined (dead code, excluded from Funcs).
	Inlined []string
	// NexusFuncs in deterministic order.
	NexusFuncs []*ssa.Function
	GoArch     string
}

// Load loads ./... under dir. extraEnv is appended to the process
// environment (e.g. GOARCH=386).
func Load(dir string, extraEnv ...string) (*Prog, error) {
	fset := token.NewFileSet()
	cfg := &packages.Config{
		Mode:  packages.LoadAllSyntax,
		Dir:   dir,
		Fset:  fset,
		Tests: false,
		Env:   append(os.Environ(), extraEnv...),
	}
	pkgs, err := packages.Load(cfg, "./...")
	if err != nil {
		return nil, fmt.Errorf("load: %w", err)
	}
	if len(pkgs) == 0 {
		return nil, fmt.Errorf("load: zero packages under %s", dir)
	}
	var errs []string
	packages.Visit(pkgs, nil, func(p *packages.Package) {
		if !strings.HasPrefix(p.PkgPath, ModPath) {
			return
		}
		for _, e := range p.Errors {
			errs = append(errs, e.Error())
		}
	})
	if len(errs) > 0 {
		return nil, fmt.Errorf("type-check errors in %s: %s", dir, strings.Join(errs, "; "))
	}
	// normalisation: inline helper functions that are newer than the rules (see inline.go)
	var notes, dead []string
	if len(Canon) > 0 && os.Getenv("NXCHECK_NOINLINE") == "" {
		notes = append(notes, computeAliases(pkgs)...)
	}
	if len(Canon) > 0 && os.Getenv("NXCHECK_NOINLINE") == "" {
		overlay := map[string][]byte{}
		for round := 1; round <= 4; round++ {
			overlayNow = overlay
			ov, d, log := InlineNewHelpers(pkgs, round)
			notes = append(notes, log...)
			if ov == nil {
				break
			}
			next := map[string][]byte{}
			for k, v := range overlay {
				next[k] = v
			}
			for k, v := range ov {
				next[k] = v
			}
			fset2 := token.NewFileSet()
			cfg2 := *cfg
			cfg2.Fset = fset2
			cfg2.Overlay = next
			pkgs2, err := packages.Load(&cfg2, "./...")
			bad := ""
			if err != nil {
				bad = err.Error()
			} else {
				packages.Visit(pkgs2, nil, func(p *packages.Package) {
					if strings.HasPrefix(p.PkgPath, ModPath) && len(p.Errors) > 0 && bad == "" {
						bad = p.Errors[0].Error()
					}
				})
			}
			if bad != "" {
				notes = append(notes, "normalisation round discarded (rewritten program does not type-check: "+bad+"); the program is analysed as written")
				if os.Getenv("NXCHECK_INLINE_DEBUG") != "" {
					for k, v := range ov {
						_ = os.WriteFile("/tmp/nxinline-"+strings.ReplaceAll(strings.TrimPrefix(k, dir), "/", "_"), v, 0o644)
					}
				}
				break
			}
			pkgs, fset, overlay = pkgs2, fset2, next
			dead = append(dead, d...)
		}
		overlayNow = nil
	}
	prog, _ := ssautil.AllPackages(pkgs, ssa.InstantiateGenerics)
	prog.Build()

	p := &Prog{
		Dir:   dir,
		Fset:  fset,
		ByRel: map[string]*packages.Package{},
		SSA:   prog,
		SPkg:  map[string]*ssa.Package{},
		Funcs: map[string]*ssa.Function{},
		Notes: notes,
	}
	for _, e := range extraEnv {
		if strings.HasPrefix(e, "GOARCH=") {
			p.GoArch = strings.TrimPrefix(e, "GOARCH=")
		}
	}
	for _, pk := range pkgs {
		if !strings.HasPrefix(pk.PkgPath, ModPath) {
			continue
		}
		rel := strings.TrimPrefix(strings.TrimPrefix(pk.PkgPath, ModPath), "/")
		if rel == "" {
			rel = "."
		}
		// Examples, aat and nexusd are programs built on the library; they carry no
		// obligations but are loaded (they must type-check).
		p.Pkgs = append(p.Pkgs, pk)
		p.ByRel[rel] = pk
		if sp := prog.Package(pk.Types); sp != nil {
			p.SPkg[rel] = sp
		}
	}
	sort.Slice(p.Pkgs, func(i, j int) bool { return p.Pkgs[i].PkgPath < p.Pkgs[j].PkgPath })
	for fn := range ssautil.AllFunctions(prog) {
		if fn.Pkg == nil && fn.Parent() == nil {
			// synthetic wrappers / instantiations: attribute by origin
			if fn.Origin() == nil {
				continue
			}
		}
		name := ShortName(fn)
		if name == "" {
			continue
		}
		if fn.Blocks == nil {
			continue
		}
		if fn.Synthetic != "" && !strings.Contains(fn.Synthetic, "instance of") {
			// wrappers, bound methods, thunks: callers are resolved through
			// them by the call graph code; they carry no source.
			if !strings.HasPrefix(fn.Synthetic, "package initializer") {
				continue
			}
		}
		if _, dup := p.Funcs[name]; dup {
			continue
		}
		if isDead(name, dead) && !stillUsed(prog, fn) {
			p.Inlined = append(p.Inlined, name)
			continue
		}
		p.Funcs[name] = fn
		p.NexusFuncs = append(p.NexusFuncs, fn)
	}
	sort.Slice(p.NexusFuncs, func(i, j int) bool { return ShortName(p.NexusFuncs[i]) < ShortName(p.NexusFuncs[j]) })
	return p, nil
}

func isDead(name string, dead []string) bool {
	for _, d := range dead {
		if name == d || strings.HasPrefix(name, d+"$") {
			return true
		}
	}
	return false
}

// stillUsed reports whether fn (or, for a closure, its outermost parent) is still referenced by an instruction of
// another function: then it is not dead and stays in the analysed set.
func stillUsed(prog *ssa.Program, fn *ssa.Function) bool {
	root := fn
	for root.Parent() != nil {
		root = root.Parent()
	}
	for g := range ssautil.AllFunctions(prog) {
		top := g
		for top.Parent() != nil {
			top = top.Parent()
		}
		if top == root {
			continue
		}
		for _, b := range g.Blocks {
			for _, in := range b.Instrs {
				for _, op := range in.Operands(nil) {
					if *op == nil {
						continue
					}
					if f, ok := (*op).(*ssa.Function); ok && (f == root || f.Origin() == root) {
						return true
					}
				}
			}
		}
	}
	return false
}

// relPkg returns the module-relative package path of a types.Package, or ""
// if it is not a nexus package.
func relPkg(tp *types.Package) string {
	if tp == nil {
		return ""
	}
	path := tp.Path()
	if !strings.HasPrefix(path, ModPath) {
		return ""
	}
	rel := strings.TrimPrefix(strings.TrimPrefix(path, ModPath), "/")
	if rel == "" {
		rel = "."
	}
	return rel
}

// ShortName renders a nexus function as "router.(*dealer).syncCall",
// "router.(*dealer).call$1", "wamp.AsID". Non-nexus functions give "".
func ShortName(fn *ssa.Function) string {
	if fn == nil {
		return ""
	}
	if fn.Parent() != nil {
		pn := ShortName(fn.Parent())
		if pn == "" {
			return ""
		}
		// fn.Name() for anon funcs is "parent$N"
		nm := fn.Name()
		if i := strings.LastIndex(nm, "$"); i >= 0 {
			return pn + nm[i:]
		}
		return pn + "$" + nm
	}
	var tp *types.Package
	if fn.Pkg != nil {
		tp = fn.Pkg.Pkg
	} else if fn.Object() != nil {
		tp = fn.Object().Pkg()
	}
	rel := relPkg(tp)
	if rel == "" {
		return ""
	}
	name := rel + "." + fn.Name()
	if recv := fn.Signature.Recv(); recv != nil {
		name = rel + "." + recvString(recv.Type()) + "." + fn.Name()
	}
	if old, ok := Alias[name]; ok {
		return old
	}
	return name
}

// Alias maps the current short name of a renamed function to the name the rules know it by. A function of the
// frozen table that no longer exists, and a new function with the same package, receiver and parameter names of
// which there is exactly one, are taken to be the same function under a new name (computed before anything else is
// analysed; recorded in Prog.Notes). A wrong guess can only turn "anchored function not found" into obligations
// checked on the guessed function, never into a silent pass.
var Alias = map[string]string{}

func computeAliases(pkgs []*packages.Package) []string {
	Alias = map[string]string{}
	type decl struct {
		short  string
		params []string
	}
	var news []decl
	declared := map[string]bool{}
	for _, pkg := range pkgs {
		if !strings.HasPrefix(pkg.PkgPath, ModPath) || pkg.TypesInfo == nil {
			continue
		}
		for _, f := range pkg.Syntax {
			for _, d := range f.Decls {
				fd, ok := d.(*ast.FuncDecl)
				if !ok || fd.Body == nil {
					continue
				}
				obj, _ := pkg.TypesInfo.Defs[fd.Name].(*types.Func)
				if obj == nil {
					continue
				}
				rel := relPkg(pkg.Types)
				sig := obj.Type().(*types.Signature)
				short := rel + "." + obj.Name()
				var ps []string
				if r := sig.Recv(); r != nil {
					short = rel + "." + recvString(r.Type()) + "." + obj.Name()
					ps = append(ps, r.Name())
				}
				for i := 0; i < sig.Params().Len(); i++ {
					ps = append(ps, sig.Params().At(i).Name())
				}
				declared[short] = true
				if _, known := Canon[short]; !known && !ast.IsExported(obj.Name()) {
					news = append(news, decl{short, ps})
				}
			}
		}
	}
	var notes []string
	used := map[string]bool{}
	var missing []string
	for k := range Canon {
		if !strings.Contains(k, "$") && !strings.HasPrefix(k, "type:") && !declared[k] && !strings.HasSuffix(k, ".init") {
			missing = append(missing, k)
		}
	}
	sort.Strings(missing)
	prefix := func(s string) string { return s[:strings.LastIndex(s, ".")+1] }
	for _, m := range missing {
		var cands []decl
		for _, n := range news {
			if used[n.short] || prefix(n.short) != prefix(m) {
				continue
			}
			if strings.Join(n.params, ",") == strings.Join(Canon[m].Params, ",") {
				cands = append(cands, n)
			}
		}
		if len(cands) == 1 {
			Alias[cands[0].short] = m
			used[cands[0].short] = true
			notes = append(notes, cands[0].short+" is analysed as "+m+" (renamed: same receiver and parameters, the old name is gone)")
		}
	}
	return notes
}

func recvString(t types.Type) string {
	switch t := t.(type) {
	case *types.Pointer:
		return "(*" + namedName(t.Elem()) + ")"
	default:
		return "(" + namedName(t) + ")"
	}
}

func namedName(t types.Type) string {
	if n, ok := t.(*types.Named); ok {
		return n.Obj().Name()
	}
	if a, ok := t.(*types.Alias); ok {
		return a.Obj().Name()
	}
	return t.String()
}

// CalleeName renders any function (nexus or not) for matching: nexus functions
// by ShortName, others by their full go/ssa string (e.g. "strings.HasPrefix",
// "(*sync.WaitGroup).Wait").
func CalleeName(fn *ssa.Function) string {
	if fn == nil {
		return "?"
	}
	if s := ShortName(fn); s != "" {
		return s
	}
	if o := fn.Origin(); o != nil {
		return o.String() // generic instance: name of the generic function, without type arguments
	}
	return fn.String()
}

// Pos renders a position relative to the repository root.
func (p *Prog) Pos(pos token.Pos) string {
	if !pos.IsValid() {
		return "-"
	}
	ps := p.Fset.Position(pos)
	f := strings.TrimPrefix(ps.Filename, p.Dir+"/")
	return fmt.Sprintf("%s:%d", f, ps.Line)
}

// FuncPos is the position of a function (its declaration, or for closures the
// func literal).
func (p *Prog) FuncPos(fn *ssa.Function) string {
	return p.Pos(fn.Pos())
}

// MustFunc returns the named function or nil.
func (p *Prog) Func(name string) *ssa.Function { return p.Funcs[name] }

// FuncsMatching returns functions whose short name has the given prefix.
func (p *Prog) FuncsIn(rel string) []*ssa.Function {
	var out []*ssa.Function
	for _, fn := range p.NexusFuncs {
		if strings.HasPrefix(ShortName(fn), rel+".") {
			out = append(out, fn)
		}
	}
	return out
}

// WithClosures returns fn and all functions nested in it (transitively).
func WithClosures(fn *ssa.Function) []*ssa.Function {
	out := []*ssa.Function{fn}
	for _, a := range fn.AnonFuncs {
		out = append(out, WithClosures(a)...)
	}
	return out
}

// TypeStr renders a type with module-relative package qualifiers
// ("*wamp.Session", "map[wamp.URI]*router.subscription").
func TypeStr(t types.Type) string {
	return types.TypeString(t, func(p *types.Package) string {
		if r := relPkg(p); r != "" {
			if i := strings.LastIndex(r, "/"); i >= 0 {
				return r[i+1:]
			}
			return r
		}
		return p.Name()
	})
}
