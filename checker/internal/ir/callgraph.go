package ir

import (
	"golang.org/x/tools/go/ssa"
)

// StaticCallees returns the functions fn calls directly (static callees,
// closures it creates or passes along, `go`/`defer` targets). Interface and
// dynamic calls are not resolved here.
func StaticCallees(fn *ssa.Function) []*ssa.Function {
	seen := map[*ssa.Function]bool{}
	var out []*ssa.Function
	add := func(f *ssa.Function) {
		if f != nil && !seen[f] {
			seen[f] = true
			out = append(out, f)
		}
	}
	for _, b := range fn.Blocks {
		for _, in := range b.Instrs {
			if ci, ok := in.(ssa.CallInstruction); ok {
				add(ci.Common().StaticCallee())
			}
			var ops []*ssa.Value
			for _, op := range in.Operands(ops) {
				switch x := (*op).(type) {
				case *ssa.MakeClosure:
					add(x.Fn.(*ssa.Function))
				case *ssa.Function:
					add(x)
				}
			}
		}
	}
	return out
}

// ReachableFrom returns the set of functions reachable from the roots through
// StaticCallees (closures created in a function count as reachable from it).
func ReachableFrom(roots ...*ssa.Function) map[*ssa.Function]bool {
	seen := map[*ssa.Function]bool{}
	var work []*ssa.Function
	for _, r := range roots {
		if r != nil && !seen[r] {
			seen[r] = true
			work = append(work, r)
		}
	}
	for len(work) > 0 {
		f := work[0]
		work = work[1:]
		if f.Blocks == nil {
			continue
		}
		for _, c := range StaticCallees(f) {
			if !seen[c] {
				seen[c] = true
				work = append(work, c)
			}
		}
	}
	return seen
}

// SyncCallees returns the functions that may run synchronously inside fn's
// own goroutine: static callees of call/defer instructions and closures that
// are called, deferred or passed as arguments. Targets of `go` statements and
// closures that are sent on a channel run elsewhere and are excluded.
func SyncCallees(fn *ssa.Function) []*ssa.Function {
	seen := map[*ssa.Function]bool{}
	var out []*ssa.Function
	add := func(f *ssa.Function) {
		if f != nil && !seen[f] {
			seen[f] = true
			out = append(out, f)
		}
	}
	elsewhere := map[ssa.Value]bool{}
	for _, b := range fn.Blocks {
		for _, in := range b.Instrs {
			switch x := in.(type) {
			case *ssa.Go:
				elsewhere[x.Call.Value] = true
			case *ssa.Send:
				elsewhere[x.X] = true
			case *ssa.Select:
				for _, st := range x.States {
					if st.Send != nil {
						elsewhere[st.Send] = true
					}
				}
			}
		}
	}
	for _, b := range fn.Blocks {
		for _, in := range b.Instrs {
			switch x := in.(type) {
			case *ssa.Go:
				continue
			case *ssa.Call:
				add(x.Call.StaticCallee())
			case *ssa.Defer:
				add(x.Call.StaticCallee())
			case *ssa.MakeClosure:
				if !elsewhere[x] && closureRunsHere(x) {
					add(x.Fn.(*ssa.Function))
				}
			}
		}
	}
	return out
}

// SyncReachable: functions that may run in the goroutine that runs root.
func SyncReachable(roots ...*ssa.Function) map[*ssa.Function]bool {
	seen := map[*ssa.Function]bool{}
	var work []*ssa.Function
	for _, r := range roots {
		if r != nil && !seen[r] {
			seen[r] = true
			work = append(work, r)
		}
	}
	for len(work) > 0 {
		f := work[0]
		work = work[1:]
		if f.Blocks == nil {
			continue
		}
		for _, c := range SyncCallees(f) {
			if !seen[c] {
				seen[c] = true
				work = append(work, c)
			}
		}
	}
	return seen
}

// closureRunsHere: the closure value may be invoked synchronously by the
// creating function: it is called or deferred directly, kept in a local
// function variable, or passed to a callee that calls that parameter. A
// closure that is only stored (e.g. registered in a table) does not run here.
func closureRunsHere(mc *ssa.MakeClosure) bool {
	refs := mc.Referrers()
	if refs == nil {
		return false
	}
	for _, r := range *refs {
		switch u := r.(type) {
		case *ssa.Store:
			if _, ok := u.Addr.(*ssa.Alloc); ok {
				return true // local function variable
			}
		case ssa.CallInstruction:
			cc := u.Common()
			if cc.Value == ssa.Value(mc) {
				return true
			}
			f := cc.StaticCallee()
			for i, a := range cc.Args {
				if a != ssa.Value(mc) {
					continue
				}
				if f == nil || f.Blocks == nil {
					return true // unknown callee may call it
				}
				idx := i
				if f.Signature.Recv() != nil && !cc.IsInvoke() {
					// Args include the receiver first for method calls; Params too
				}
				if idx < len(f.Params) && paramCalled(f, f.Params[idx], 0) {
					return true
				}
			}
		case *ssa.MakeInterface, *ssa.ChangeType:
			return true
		}
	}
	return false
}

func paramCalled(f *ssa.Function, p *ssa.Parameter, depth int) bool {
	if depth > 3 {
		return true
	}
	refs := p.Referrers()
	if refs == nil {
		return false
	}
	for _, r := range *refs {
		switch u := r.(type) {
		case ssa.CallInstruction:
			cc := u.Common()
			if cc.Value == ssa.Value(p) {
				return true
			}
			g := cc.StaticCallee()
			for i, a := range cc.Args {
				if a == ssa.Value(p) {
					if g == nil || g.Blocks == nil {
						return true
					}
					if i < len(g.Params) && paramCalled(g, g.Params[i], depth+1) {
						return true
					}
				}
			}
		case *ssa.Store, *ssa.MakeClosure, *ssa.Phi:
			// stored or captured: conservatively treat captured-by-closure as called when that closure calls it
			if mc, ok := r.(*ssa.MakeClosure); ok {
				cf := mc.Fn.(*ssa.Function)
				for i, b := range mc.Bindings {
					if b == ssa.Value(p) && i < len(cf.FreeVars) {
						if fr := cf.FreeVars[i].Referrers(); fr != nil {
							for _, x := range *fr {
								if ci, ok := x.(ssa.CallInstruction); ok && ci.Common().Value == ssa.Value(cf.FreeVars[i]) {
									return true
								}
							}
						}
					}
				}
			}
		}
	}
	return false
}
