package ir

import (
	"golang.org/x/tools/go/ssa"
)

// StaticCallees returns the functions fn calls directly (static callees,
// closures it creates or passes along, `go`/`defer` targets). Interface and
// dynamic calls are not resolved here.
func StaticCallees(fn *ssa.Function) []*ssa.Function {
	seen := map[*ssa.Function]bool{}
	var out []*ssa.Function
	add := func(f *ssa.Function) {
		if f != nil && !seen[f] {
			seen[f] = true
			out = append(out, f)
		}
	}
	for _, b := range fn.Blocks {
		for _, in := range b.Instrs {
			if ci, ok := in.(ssa.CallInstruction); ok {
				add(ci.Common().StaticCallee())
			}
			var ops []*ssa.Value
			for _, op := range in.Operands(ops) {
				switch x := (*op).(type) {
				case *ssa.MakeClosure:
					add(x.Fn.(*ssa.Function))
				case *ssa.Function:
					add(x)
				}
			}
		}
	}
	return out
}

// ReachableFrom returns the set of functions reachable from the roots through
// StaticCallees (closures created in a function count as reachable from it).
func ReachableFrom(roots ...*ssa.Function) map[*ssa.Function]bool {
	seen := map[*ssa.Function]bool{}
	var work []*ssa.Function
	for _, r := range roots {
		if r != nil && !seen[r] {
			seen[r] = true
			work = append(work, r)
		}
	}
	for len(work) > 0 {
		f := work[0]
		work = work[1:]
		if f.Blocks == nil {
			continue
		}
		for _, c := range StaticCallees(f) {
			if !seen[c] {
				seen[c] = true
				work = append(work, c)
			}
		}
	}
	return seen
}

// SyncCallees returns the functions that may run synchronously inside fn's
// own goroutine: static callees of call/defer instructions and closures that
// are called, deferred or passed as arguments. Targets of `go` statements and
// closures that are sent on a channel run elsewhere and are excluded.
func SyncCallees(fn *ssa.Function) []*ssa.Function {
	seen := map[*ssa.Function]bool{}
	var out []*ssa.Function
	add := func(f *ssa.Function) {
		if f != nil && !seen[f] {
			seen[f] = true
			out = append(out, f)
		}
	}
	elsewhere := map[ssa.Value]bool{}
	for _, b := range fn.Blocks {
		for _, in := range b.Instrs {
			switch x := in.(type) {
			case *ssa.Go:
				elsewhere[x.Call.Value] = true
			case *ssa.Send:
				elsewhere[x.X] = true
			case *ssa.Select:
				for _, st := range x.States {
					if st.Send != nil {
						elsewhere[st.Send] = true
					}
				}
			}
		}
	}
	for _, b := range fn.Blocks {
		for _, in := range b.Instrs {
			switch x := in.(type) {
			case *ssa.Go:
				continue
			case *ssa.Call:
				add(x.Call.StaticCallee())
			case *ssa.Defer:
				add(x.Call.StaticCallee())
			case *ssa.MakeClosure:
				if !elsewhere[x] {
					// stored in a local and sent later? follow one level: stores of this closure into cells that are sent
					escapes := false
					if refs := x.Referrers(); refs != nil {
						for _, r := range *refs {
							if _, isSt := r.(*ssa.Store); isSt {
								// local function variables (sendAbort := func...) are called synchronously
							}
							_ = r
						}
					}
					if !escapes {
						add(x.Fn.(*ssa.Function))
					}
				}
			}
		}
	}
	return out
}

// SyncReachable: functions that may run in the goroutine that runs root.
func SyncReachable(roots ...*ssa.Function) map[*ssa.Function]bool {
	seen := map[*ssa.Function]bool{}
	var work []*ssa.Function
	for _, r := range roots {
		if r != nil && !seen[r] {
			seen[r] = true
			work = append(work, r)
		}
	}
	for len(work) > 0 {
		f := work[0]
		work = work[1:]
		if f.Blocks == nil {
			continue
		}
		for _, c := range SyncCallees(f) {
			if !seen[c] {
				seen[c] = true
				work = append(work, c)
			}
		}
	}
	return seen
}
