package props

import (
	"fmt"
	"go/types"
	"sort"
	"strings"

	"golang.org/x/tools/go/ssa"

	"nxcheck/internal/ir"
)

// Owner confinement (engine E-C): router, realm, broker and dealer each own a
// goroutine that executes closures received on their actionChan. State written
// after construction must only be touched by code confined to that goroutine.

type confinement struct {
	owners   []string                 // owner type names
	conf     map[*ssa.Function]string // function -> owner it is confined to
	ctor     map[*ssa.Function]string // constructor code of an owner (runs before the goroutine can be reached)
	recordOf map[string]string        // record type -> owner
}

func ownerOf(t types.Type) string {
	if p, ok := t.Underlying().(*types.Pointer); ok {
		t = p.Elem()
	}
	n, ok := t.(*types.Named)
	if !ok || n.Obj().Pkg() == nil || !strings.HasSuffix(n.Obj().Pkg().Path(), "/router") {
		return ""
	}
	return n.Obj().Name()
}

func computeConfinement(c *Ctx) *confinement {
	cf := &confinement{conf: map[*ssa.Function]string{}, ctor: map[*ssa.Function]string{},
		recordOf: map[string]string{"subscription": "broker", "historyStore": "broker", "historyEntry": "broker", "storedEvent": "broker",
			"registration": "dealer", "invocation": "dealer", "testamentBucket": "realm", "testament": "realm"}}
	pkg := c.P.ByRel["router"]
	isOwner := map[string]bool{}
	for _, nm := range pkg.Types.Scope().Names() {
		if tn, ok := pkg.Types.Scope().Lookup(nm).(*types.TypeName); ok {
			if st, ok := tn.Type().Underlying().(*types.Struct); ok {
				for i := 0; i < st.NumFields(); i++ {
					if ir.FieldName(tn.Type(), i) == "actionChan" && st.Field(i).Type().String() == "chan func()" {
						isOwner[nm] = true
						cf.owners = append(cf.owners, nm)
					}
				}
			}
		}
	}
	sort.Strings(cf.owners)
	funcs := c.P.FuncsIn("router")
	type poster struct {
		fn    *ssa.Function
		idx   int
		owner string
	}
	var posters []poster
	// seeds: closures sent on X.actionChan; the run method
	for _, fn := range funcs {
		for _, in := range ir.Instrs(fn) {
			var ch, val ssa.Value
			switch x := in.(type) {
			case *ssa.Send:
				ch, val = x.Chan, x.X
			case *ssa.Select:
				for _, st := range x.States {
					if st.Send != nil {
						ch, val = st.Chan, st.Send
					}
				}
			}
			if ch == nil {
				continue
			}
			load, ok := ch.(*ssa.UnOp)
			if !ok {
				continue
			}
			fa, ok := load.X.(*ssa.FieldAddr)
			if !ok || !strings.HasSuffix(ir.Desc(fa), ".&actionChan") {
				continue
			}
			o := ownerOf(fa.X.Type())
			if !isOwner[o] {
				continue
			}
			if mc, ok := val.(*ssa.MakeClosure); ok {
				cf.conf[mc.Fn.(*ssa.Function)] = o
			}
			// posting wrapper: a function that sends its own parameter on the
			// action channel (router.post); closures passed at its call sites
			// run on the owner's goroutine
			if p, ok := val.(*ssa.Parameter); ok {
				for i, q := range fn.Params {
					if q == p {
						posters = append(posters, poster{fn, i, o})
					}
				}
			}
		}
		if fn.Name() == "run" && fn.Signature.Recv() != nil {
			if o := ownerOf(fn.Signature.Recv().Type()); isOwner[o] {
				cf.conf[fn] = o
			}
		}
		// constructors: functions that allocate the owner struct
		for _, in := range ir.Instrs(fn) {
			if a, ok := in.(*ssa.Alloc); ok && a.Heap {
				if o := ownerOf(a.Type()); isOwner[o] && fn.Parent() == nil {
					cf.ctor[fn] = o
				}
			}
		}
	}
	for _, ps := range posters {
		for _, fn := range funcs {
			for _, in := range ir.Instrs(fn) {
				if ci, ok := in.(ssa.CallInstruction); ok && ci.Common().StaticCallee() == ps.fn && ps.idx < len(ci.Common().Args) {
					if mc, ok := ci.Common().Args[ps.idx].(*ssa.MakeClosure); ok {
						cf.conf[mc.Fn.(*ssa.Function)] = ps.owner
					}
				}
			}
		}
	}
	// call sites
	callers := map[*ssa.Function][]*ssa.Function{}
	goTargets := map[*ssa.Function]bool{}
	for _, fn := range c.P.NexusFuncs {
		if !libFunc(ir.ShortName(fn)) {
			continue
		}
		for _, in := range ir.Instrs(fn) {
			if ci, ok := in.(ssa.CallInstruction); ok {
				if f := ci.Common().StaticCallee(); f != nil {
					callers[f] = append(callers[f], fn)
					if _, isGo := in.(*ssa.Go); isGo {
						goTargets[f] = true
					}
				}
				if mc, ok := ci.Common().Value.(*ssa.MakeClosure); ok {
					if _, isGo := in.(*ssa.Go); isGo {
						goTargets[mc.Fn.(*ssa.Function)] = true
					}
				}
			}
		}
	}
	// function values escaping (method values stored in tables etc.) are not confined
	escapes := map[*ssa.Function]bool{}
	for _, u := range c.FuncValueUses(`^router\.`) {
		for _, fn := range funcs {
			if ir.CalleeName(fn) == strings.TrimSuffix(u.Callee, "$bound") || fn.String()+"$bound" == u.Callee {
				escapes[fn] = true
			}
		}
	}
	// fixpoint
	for changed := true; changed; {
		changed = false
		for _, fn := range funcs {
			if _, done := cf.conf[fn]; done {
				continue
			}
			if goTargets[fn] || escapes[fn] {
				continue
			}
			if _, isCtorRoot := cf.ctor[fn]; isCtorRoot && fn.Parent() == nil {
				continue // constructor code of an owner is not confined to whoever calls the constructor
			}
			owner := ""
			if p := fn.Parent(); p != nil {
				// closure: inherits when its parent is confined (or constructor) and it is not started as a goroutine
				if o, ok := cf.conf[p]; ok {
					owner = o
				} else if o, ok := cf.ctor[p]; ok {
					owner = "ctor:" + o
				}
			} else if cs := callers[fn]; len(cs) > 0 {
				owner = "?"
				for _, caller := range cs {
					o := ""
					if x, ok := cf.conf[caller]; ok {
						o = x
					} else if x, ok := cf.ctor[caller]; ok {
						o = "ctor:" + x
					}
					if o == "" {
						owner = ""
						break
					}
					if owner == "?" {
						owner = o
					} else if strings.TrimPrefix(owner, "ctor:") != strings.TrimPrefix(o, "ctor:") {
						owner = ""
						break
					} else if !strings.HasPrefix(o, "ctor:") {
						owner = o // called both from the constructor and from confined code
					}
				}
				if owner == "?" {
					owner = ""
				}
			}
			if owner == "" {
				continue
			}
			if strings.HasPrefix(owner, "ctor:") {
				if _, ok := cf.ctor[fn]; !ok {
					cf.ctor[fn] = strings.TrimPrefix(owner, "ctor:")
					changed = true
				}
				continue
			}
			cf.conf[fn] = owner
			changed = true
		}
	}
	return cf
}

// allowedFor: may function fn touch confined state of owner o?
func (cf *confinement) allowedFor(fn *ssa.Function, o string) bool {
	if cf.conf[fn] == o || cf.ctor[fn] == o {
		return true
	}
	return false
}

// ruleConfinement checks every access to state of the owners written after
// construction.
func ruleConfinement(c *Ctx, rule string) {
	cf := computeConfinement(c)
	funcs := c.P.FuncsIn("router")
	// 1. which fields are written outside constructors?
	type fkey struct{ owner, field string }
	written := map[fkey]bool{}
	fieldOf := func(v ssa.Value) (fkey, bool) {
		// v is an address or a loaded value of owner.field
		switch x := v.(type) {
		case *ssa.UnOp:
			return fieldOfAddr(x.X, cf)
		}
		return fieldOfAddr(v, cf)
	}
	mutators := map[string]bool{"wamp.(*IDGen).Next": true, "(*math/rand.Rand).Int63n": true}
	for _, fn := range funcs {
		if _, isCtor := cf.ctor[fn]; isCtor {
			continue
		}
		for _, in := range ir.Instrs(fn) {
			switch x := in.(type) {
			case *ssa.Store:
				if k, ok := fieldOfAddr(x.Addr, cf); ok {
					written[k] = true
				}
			case *ssa.MapUpdate:
				if k, ok := fieldOf(x.Map); ok {
					written[k] = true
				}
			case *ssa.Call:
				if b, ok := x.Call.Value.(*ssa.Builtin); ok && b.Name() == "delete" {
					if k, ok := fieldOf(x.Call.Args[0]); ok {
						written[k] = true
					}
				}
				if f := x.Call.StaticCallee(); f != nil && mutators[ir.CalleeName(f)] && len(x.Call.Args) > 0 {
					if k, ok := fieldOf(x.Call.Args[0]); ok {
						written[k] = true
					}
				}
			}
		}
	}
	// records: every field of an owned record type counts as confined state
	// 2. protection table for what is not confinement
	other := map[fkey]string{
		{"realm", "closed"}:       "guarded by closeLock in close() and handleSession()",
		{"realm", "waitHandlers"}: "sync.WaitGroup (self-synchronised)",
		{"realm", "closeLock"}:    "mutex",
		{"router", "closeOnce"}:   "sync.Once",
		{"router", "stopping"}:    "guarded by stopLock (written by Close under the write lock, read by post under the read lock)",
		{"router", "stopLock"}:    "mutex",
		{"dealer", "timers"}:      "sync.WaitGroup (self-synchronised)",
	}
	exempt := map[string]string{
		"router.(*realm).close|realm.closeOnStop":           "read after waitHandlers.Wait(): every handler that appended through the realm goroutine has finished",
		"router.(*dealer).register|dealer.metaPeer":         "written once by the first action posted while the realm is constructed; no session exists before newRealm returns",
		"router.(*dealer).unregister|dealer.metaPeer":       "as above",
		"router.(*dealer).removeSession|dealer.metaPeer":    "as above",
		"router.(*realm).handleSession|realm.closed":        "under closeLock",
		"router.(*realm).close|realm.closed":                "under closeLock",
		"router.(*realm).createMetaSession$1|realm.metaSess": "immutable after construction",
		"router.(*realm).onLeave|testamentBucket.*":   "the bucket was taken out of realm.testaments and deleted there in the same action (onLeave$1) before the session goroutine reads it: ownership transfer through the sync channel",
		"router.(*realm).onLeave$2|testament.*":       "as above: elements of the transferred bucket",
		"router.(*realm).onLeave|testament.*":         "as above (the publishing loop when it sits in onLeave itself)",
	}
	nAcc, nField := 0, 0
	var fkeys []string
	for k := range written {
		fkeys = append(fkeys, k.owner+"."+k.field)
	}
	sort.Strings(fkeys)
	nField = len(fkeys)
	for _, fn := range funcs {
		name := ir.ShortName(fn)
		seen := map[string]bool{}
		for _, in := range ir.Instrs(fn) {
			var k fkey
			var ok bool
			switch x := in.(type) {
			case *ssa.FieldAddr:
				k, ok = fieldOfAddr(x, cf)
			case *ssa.Field:
				if o := ownerOf(x.X.Type()); o != "" {
					k, ok = fkey{o, fieldNameOf(x.X.Type(), x.Field)}, true
				}
			}
			if !ok {
				continue
			}
			owner := k.owner
			if ro, isRec := cf.recordOf[k.owner]; isRec {
				owner = ro
			} else if !written[k] {
				continue // immutable after construction
			}
			if _, isOther := other[k]; isOther {
				continue
			}
			id := k.owner + "." + k.field
			if seen[id] {
				continue
			}
			seen[id] = true
			nAcc++
			if cf.allowedFor(fn, owner) {
				c.R.OK(rule, name, "access to "+id+" (confined to "+owner+" goroutine)", c.pos(in), "")
				continue
			}
			why, ok := exempt[name+"|"+id]
			if !ok {
				why, ok = exempt[name+"|"+k.owner+".*"]
			}
			if ok {
				c.R.OK(rule, name, "access to "+id+" (exempt: "+why+")", c.pos(in), "")
				continue
			}
			where := "not confined to any owner goroutine"
			if o, ok := cf.conf[fn]; ok {
				where = "confined to the " + o + " goroutine"
			}
			c.R.Bad(rule, name, "access to "+id+" from a function confined to the "+owner+" goroutine", c.pos(in),
				fmt.Sprintf("%s is written after construction without a lock and belongs to the %s goroutine, but %s is %s: unsynchronised concurrent access (data race / concurrent map access kills the process)", id, owner, name, where))
		}
	}
	c.R.Check(nField >= 20, rule, "router", "fields written after construction enumerated", "-", fmt.Sprintf("found %d: %s", nField, strings.Join(fkeys, " ")))
	c.R.Check(nAcc >= 120, rule, "router", "accesses enumerated", "-", fmt.Sprintf("found %d accesses", nAcc))
	c.R.Extra["confinement_fields_written_after_construction"] = fkeys
	var confNames []string
	for fn, o := range cf.conf {
		confNames = append(confNames, ir.ShortName(fn)+" -> "+o)
	}
	sort.Strings(confNames)
	c.R.Extra["confinement_functions"] = confNames
}

type fkeyT = struct{ owner, field string }

func fieldOfAddr(v ssa.Value, cf *confinement) (struct{ owner, field string }, bool) {
	fa, ok := v.(*ssa.FieldAddr)
	if !ok {
		return fkeyT{}, false
	}
	o := ownerOf(fa.X.Type())
	if o == "" {
		return fkeyT{}, false
	}
	isOwner := false
	for _, x := range cf.owners {
		if x == o {
			isOwner = true
		}
	}
	if _, isRec := cf.recordOf[o]; !isOwner && !isRec {
		return fkeyT{}, false
	}
	return fkeyT{o, fieldNameOf(fa.X.Type(), fa.Field)}, true
}

func fieldNameOf(t types.Type, i int) string { return ir.FieldName(t, i) }
