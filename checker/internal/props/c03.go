package props

import (
	"sort"
	"strconv"
	"strings"

	"golang.org/x/tools/go/ssa"

	"nxcheck/internal/ir"
)

func init() {
	register(&Check{
		ID: "C03",
		Decides: "that the best-match lookup consults the exact table first, the prefix table only on an exact miss and the wildcard table only when no prefix matched, with the called procedure as receiver of " +
			"PrefixMatch/WildcardMatch and 'longer pattern wins'; that YIELD/ERROR are looked up under (callee session, request) and forwarded only when the sender owns the invocation; that a callee is " +
			"added to an existing registration only under a sharing policy equal to the requested one and only once; that the set of policies accepted by register equals the arms of the selection switch in " +
			"syncCall; that wamp.* procedures are refused for clients; that INVOCATION fields (request id, registration id, payload, receive_progress, procedure, timeout) have the right provenance and guards; " +
			"that UNREGISTER acts only for a member; that removing a callee edits the registration and its tables consistently and keeps the order of the remaining callees; that a progressive call keeps its invocation record (and so its callee and invocation id) until the final chunk.",
		NotDecided: "fairness of round-robin under membership churn, randomness of 'random', uniqueness of invocation ids as a run-time fact, histories.",
		Run: runC03,
	})
}

const dReg = `call:router\.\(\*dealer\)\.syncMatchProcedure\(%d, %msg\.Procedure\)#0`

func runC03(c *Ctx) {
	// R1 best match
	const r1 = "C03.R1 best-match lookup order and roles"
	mp := dlr + "syncMatchProcedure"
	exactMiss := clause("exact table miss", F(`^%d\.procRegMap\[%procedure\],ok#1$`))
	c.Guard(r1, mp, "prefix table scanned", `^val:range\(%d\.pfxProcRegMap\)$`, 1, exactMiss)
	c.Guard(r1, mp, "wildcard table scanned", `^val:range\(%d\.wcProcRegMap\)$`, 1, exactMiss)
	pfxHit := clause("a prefix registration was chosen", T(`^\(phi\(.*\) < call:builtin:len\(range\(%d\.pfxProcRegMap\)#k\)\)$`))
	c.Reach(r1, mp, "wildcard table not consulted once a prefix registration matched", ReachSpec{
		FromEdge: &pfxHit, Target: `^val:range\(%d\.wcProcRegMap\)$`, Want: false})
	c.Has(r1, mp, "prefix role: procedure.PrefixMatch(table key)", `^call:wamp\.\(URI\)\.PrefixMatch\(%procedure, range\(%d\.pfxProcRegMap\)#k\)$`, 1)
	c.Has(r1, mp, "wildcard role: procedure.WildcardMatch(table key)", `^call:wamp\.\(URI\)\.WildcardMatch\(%procedure, range\(%d\.wcProcRegMap\)#k\)$`, 1)
	if fn := c.Fn(r1, mp); fn != nil {
		// no other match calls
		n := len(matches(fn, `^call:wamp\.\(URI\)\.(Prefix|Wildcard)Match\(`))
		c.R.Check(n == 2, r1, mp, "exactly one PrefixMatch and one WildcardMatch", c.P.FuncPos(fn), "unexpected number of match calls")
		// "longer wins": a candidate replaces the current one only under oldLen < len(key); path-sensitive search of the
		// phi that carries the chosen registration is out of reach, so the comparison's shape is checked.
		atoms := strings.Join(ir.AtomsOf(fn), "\n")
		c.R.Check(re(`(?m)^\(phi\(.*\) < call:builtin:len\(range\(%d\.pfxProcRegMap\)#k\)\)$`).MatchString(atoms), r1, mp, "prefix candidate accepted only when strictly longer", c.P.FuncPos(fn), "comparison `len(key) > matchCount` not found for the prefix table")
		c.R.Check(re(`(?m)^\(phi\(.*\) < call:builtin:len\(range\(%d\.wcProcRegMap\)#k\)\)$`).MatchString(atoms), r1, mp, "wildcard candidate accepted only when strictly longer", c.P.FuncPos(fn), "comparison `len(key) > matchCount` not found for the wildcard table")
	}
	c.Has(r1, dlr+"syncCall", "CALL routed by best match on CALL.Procedure", `^call:router\.\(\*dealer\)\.syncMatchProcedure\(%d, %msg\.Procedure\)$`, 1)
	c.Has(r1, dlr+"regMatch$1", "wamp.registration.match uses the routing lookup", `^call:router\.\(\*dealer\)\.syncMatchProcedure\(\^d, \^procedure\)$`, 1)
	c.R.Floor(r1, 9)

	// R2 ownership on YIELD / ERROR
	const r2 = "C03.R2 answers only from the invocation's callee"
	sy := dlr + "syncYield"
	own := clause("sender is the invocation's callee", T(`^\(%callee == %d\.invocations\[`+dInvkKey+`\],ok#0\.callee\)$`))
	for _, e := range [][2]string{
		{"RESULT to caller", `^select\{send:.*<-new\(wamp\.Result\);default\}$`},
		{"deferred cleanup", `^defer:router\.\(\*dealer\)\.syncYield\$1\(\)$`},
		{"timer stop", `^call:dyn:.*timerCancel\(\)$`},
		{"cancel", `^call:router\.\(\*dealer\)\.syncCancel\(`},
		{"feature errors", dTrySendTo + `.*new\(wamp\.Error\)\)$`},
		{"call failed for the caller", `^call:router\.\(\*dealer\)\.syncFailCall\(%d, `},
	} {
		c.Guard(r2, sy, e[0], e[1], 1, own)
	}
	c.Has(r2, dlr+"syncError", "ERROR looked up under (callee session, request)", `^val:%d\.invocations\[`+dInvkKey+`\],ok$`, 1)
	c.R.Floor(r2, 8)

	// R3 registration sharing
	const r3 = "C03.R3 second callee only under identical shared policy, once"
	sr := dlr + "syncRegister"
	regPhi := `phi\(%d\.pfxProcRegMap\[%msg\.Procedure\]\|%d\.procRegMap\[%msg\.Procedure\]\|%d\.wcProcRegMap\[%msg\.Procedure\]\)`
	addCallee := `^store:` + regPhi + `\.&callees=call:builtin:append\(` + regPhi + `\.callees, `
	c.Guard(r3, sr, "append callee to existing registration", addCallee, 1,
		clause("existing policy is not empty", F(`^\(`+regPhi+`\.policy == ""\)$`)),
		clause("existing policy is not single", F(`^\(`+regPhi+`\.policy == "single"\)$`)),
		clause("requested policy equals existing policy", T(`^\(%invokePolicy == `+regPhi+`\.policy\)$`)),
		clause("callee not already a member", F(`^call:slices\.Contains\(`+regPhi+`\.callees, %callee\)$`)))
	alreadyExists := fieldIs("Error", `procedure_already_exists`)
	c.Fields(r3, sr, "procedure_already_exists replies", "wamp.Error", alreadyExists, map[string]string{
		"Request": `^%msg\.Request$`, "Type": `^call:wamp\.\(\*Register\)\.MessageType\(%msg\)$`}, 3)
	// a refused registration returns without registering anything
	c.Reach(r3, sr, "refusal path registers nothing", ReachSpec{
		From: dTrySendTo + `%callee, new\(wamp\.Error\)\)$`, Target: `^mapupdate:|^store:.*callees=|` + dTrySendTo + `%callee, new\(wamp\.Registered\)\)$`, Want: false})
	c.Fields(r3, sr, "registration literal", "router.registration", nil, map[string]string{
		"id": `^call:wamp\.\(\*IDGen\)\.Next\(%d\.idGen\)$`, "procedure": `^%msg\.Procedure$`, "match": `^%match$`, "policy": `^%invokePolicy$`,
		"disclose": `^%disclose$`, "forwardTimeout": `^%forwardTimeout$`,
	}, 1)
	// table agreement
	isPfx, isWc := `^\(%match == "prefix"\)$`, `^\(%match == "wildcard"\)$`
	c.Guard(r3, sr, "prefix table lookup", `^val:%d\.pfxProcRegMap\[%msg\.Procedure\]$`, 1, clause("match == prefix", T(isPfx)))
	c.Guard(r3, sr, "wildcard table lookup", `^val:%d\.wcProcRegMap\[%msg\.Procedure\]$`, 1, clause("match == wildcard", T(isWc)))
	c.Guard(r3, sr, "exact table lookup", `^val:%d\.procRegMap\[%msg\.Procedure\]$`, 1, clause("match != prefix", F(isPfx)), clause("match != wildcard", F(isWc)))
	c.Guard(r3, sr, "prefix table insert", `^mapupdate:%d\.pfxProcRegMap\[%msg\.Procedure\]=new\(router\.registration\)$`, 1, clause("match == prefix", T(isPfx)))
	c.Guard(r3, sr, "wildcard table insert", `^mapupdate:%d\.wcProcRegMap\[%msg\.Procedure\]=new\(router\.registration\)$`, 1, clause("match == wildcard", T(isWc)))
	c.Guard(r3, sr, "exact table insert", `^mapupdate:%d\.procRegMap\[%msg\.Procedure\]=new\(router\.registration\)$`, 1, clause("match != prefix", F(isPfx)), clause("match != wildcard", F(isWc)))
	newReg := clause("no existing registration", T(`^\((`+regPhi+`|%d\.(pfxP|wcP|p)rocRegMap\[%msg\.Procedure\]) == nil\)$`))
	c.Guard(r3, sr, "new registration id", `^call:wamp\.\(\*IDGen\)\.Next\(%d\.idGen\)$`, 1, newReg)
	c.Fields(r3, sr, "REGISTERED literal", "wamp.Registered", nil, map[string]string{
		"Request": `^%msg\.Request$`, "Registration": `^phi\((call:wamp\.\(\*IDGen\)\.Next\(%d\.idGen\)|new\(router\.registration\)\.id)\|` + regPhi + `\.id\)$`}, 1)
	c.Has(r3, sr, "callee's registration set updated", `^mapupdate:(%d\.calleeRegIDSet\[%callee\]|phi\(%d\.calleeRegIDSet\[%callee\],ok#0\|makemap\(map\[wamp\.ID\]struct\{\}\)\))\[phi\((call:wamp\.\(\*IDGen\)\.Next\(%d\.idGen\)|new\(router\.registration\)\.id)\|`+regPhi+`\.id\)\]=nil$`, 1)
	c.Fields(r3, sr, "a new registration gets a fresh id", "router.registration", nil, map[string]string{"id": `^call:wamp\.\(\*IDGen\)\.Next\(%d\.idGen\)$`}, 1)
	c.R.Floor(r3, 23)

	// R4 policy set agreement
	const r4 = "C03.R4 accepted invocation policies = arms of the selection switch"
	rulePolicyAgreement(c, r4)
	c.R.Floor(r4, 10)

	// R5 restricted procedures and URI validity
	const r5 = "C03.R5 register: URI validity and wamp.* restriction before hand-off"
	reg := dlr + "register"
	c.Guard(r5, reg, "hand-off", `^send:%d\.actionChan<-closure:`, 1,
		clause("procedure URI valid for the requested match", T(`^call:wamp\.\(URI\)\.ValidURI\(%msg\.Procedure, %d\.strictURI, call:wamp\.AsString\(%msg\.Options\["match"\]\)#0\)$`)),
		clause("not a wamp.* procedure, or registered by the meta session", F(`^call:strings\.HasPrefix\(%msg\.Procedure, "wamp\."\)$`), T(`^\(%callee\.ID == 1\)$`)))
	ruleURIPatterns(c, r5) // "valid URI" is what the six patterns and their dispatch say
	c.R.Floor(r5, 2)

	// R6 INVOCATION provenance
	const r6 = "C03.R6 INVOCATION provenance"
	sc := dlr + "syncCall"
	c.Fields(r6, sc, "INVOCATION literal", "wamp.Invocation", nil, map[string]string{
		"Request":      `^phi\(%d\.invocationByCall\[` + dCallKey + `\],ok#0\.request\|call:wamp\.\(\*SyncIDGen\)\.Next\(`,
		"Registration": `^` + dReg + `\.id$`,
		"Arguments":    `^%msg\.Arguments$`,
		"ArgumentsKw":  `^%msg\.ArgumentsKw$`,
		"Details":      `^makemap\(wamp\.Dict\)$`,
	}, 1)
	newCall := clause("first chunk of a call", F(`^%d\.invocationByCall\[`+dCallKey+`\],ok#1$`))
	c.Guard(r6, sc, "fresh invocation id", `^call:wamp\.\(\*SyncIDGen\)\.Next\(`, 1, newCall)
	c.Has(r6, sc, "invocation id from the callee's generator", `^call:wamp\.\(\*SyncIDGen\)\.Next\(phi\(.*\)\.&IDGen\)$`, 1)
	c.Guard(r6, sc, "receive_progress forwarded", `^mapupdate:makemap\(wamp\.Dict\)\["receive_progress"\]=true$`, 1,
		clause("caller asked for progressive results", T(`^new\(router\.invocation\)\.options\["receive_progress"\]\.\(bool\),ok#0$`)),
		clause("callee supports progressive results", T(`^call:wamp\.\(\*Session\)\.HasFeature\(.*, "callee", "progressive_call_results"\)$`)),
		clause("callee supports call canceling", T(`^call:wamp\.\(\*Session\)\.HasFeature\(.*, "callee", "call_canceling"\)$`)))
	c.Guard(r6, sc, "procedure detail for pattern registrations", `^mapupdate:makemap\(wamp\.Dict\)\["procedure"\]=%msg\.Procedure$`, 1,
		clause("registration is not exact", F(`^\(`+dReg+`\.match == "exact"\)$`)))
	// continuation chunks reuse the stored callee and invocation id
	c.Has(r6, sc, "continuation goes to the stored invocation's callee",
		`^select\{send:call:invoke:wamp\.Peer\.Send\[phi\(%d\.invocations\[%d\.invocationByCall\[`+dCallKey+`\],ok#0\]\.callee\|phi\(`, 1)
	c.R.Floor(r6, 11)

	const r7 = "C03.R7 unregister only for a member"
	ruleUnregisterMember(c, r7)
	c.R.Floor(r7, 9)

	// R8 callee removal edits registration and tables consistently
	const r8 = "C03.R8 callee removal"
	dc := dlr + "syncDelCalleeReg"
	dr := `%d\.registrations\[%regID\],ok#0`
	c.Guard(r8, dc, "callees edited", `^store:`+dr+`\.&callees=`, 2, clause("entry is the departing callee", T(`^\(%callee == `+dr+`\.callees\[`)))
	last := clause("no callees left", T(`^\(call:builtin:len\(`+dr+`\.callees\) == 0\)$`))
	c.Guard(r8, dc, "registration deleted", `^call:builtin:delete\(%d\.registrations, %regID\)$`, 1, last)
	dPfx, dWc := `^\(`+dr+`\.match == "prefix"\)$`, `^\(`+dr+`\.match == "wildcard"\)$`
	c.Guard(r8, dc, "prefix table delete", `^call:builtin:delete\(%d\.pfxProcRegMap, `+dr+`\.procedure\)$`, 1, last, clause("match == prefix", T(dPfx)))
	c.Guard(r8, dc, "wildcard table delete", `^call:builtin:delete\(%d\.wcProcRegMap, `+dr+`\.procedure\)$`, 1, last, clause("match == wildcard", T(dWc)))
	c.Guard(r8, dc, "exact table delete", `^call:builtin:delete\(%d\.procRegMap, `+dr+`\.procedure\)$`, 1, last, clause("match != prefix", F(dPfx)), clause("match != wildcard", F(dWc)))
	// when the last callee left, the registration disappears from its table on every path
	c.Reach(r8, dc, "emptied registration always leaves the lookup tables", ReachSpec{
		Stop: `^call:builtin:delete\(%d\.(pfxProcRegMap|wcProcRegMap|procRegMap), `, Cut: []ir.Clause{
			clause("callees remain", F(`^\(call:builtin:len\(`+dr+`\.callees\) == 0\)$`)), clause("unknown registration", F(`^%d\.registrations\[%regID\],ok#1$`))},
		Target: "EXIT", Want: false})
	// order-preserving removal (first/last/round-robin selection depend on the order of callees)
	if fn := c.Fn(r8, dc); fn != nil {
		pat := re(`^store:` + dr + `\.&callees=call:builtin:append\(` + dr + `\.callees\[:(.+)\], ` + dr + `\.callees\[\((.+) \+ 1\):\]\)$`)
		n := 0
		for _, in := range matches(fn, `^store:`+dr+`\.&callees=`) {
			d := ir.InstrDesc(in)
			if d == "store:"+strings.ReplaceAll(strings.ReplaceAll(dr, `\`, ""), "", "")+".&callees=nil" || strings.HasSuffix(d, ".&callees=nil") {
				continue
			}
			n++
			m := pat.FindStringSubmatch(d)
			c.R.Check(m != nil && m[1] == m[2], r8, dc, "callee removed preserving the order of the others", c.pos(in),
				"callees is rewritten as "+d+" rather than append(callees[:i], callees[i+1:]...)")
		}
		c.R.Check(n >= 1, r8, dc, "order-preserving removal present", c.P.FuncPos(fn), "no append-based removal found")
	}
	c.R.Floor(r8, 13)

	// R9: chunks of one progressive call stay on one invocation
	const r9 = "C03.R9 a progressive call keeps its invocation until the final chunk"
	ruleProgressiveStickiness(c, r9)
	c.R.Floor(r9, 5)

	const r11 = "C03.R11 features are those the session announced for that role"
	ruleFeatureTable(c, r11)
	c.R.Floor(r11, 5)

	const r10 = "C03.R10 a departed callee is removed from the dealer before its peer is closed (no call is routed to it afterwards)"
	ruleSessionRemoval(c, r10)
	ruleDealerRemoval(c, r10)
	ruleShutdownFlag(c, r10) // a killed callee is not mistaken for a realm shutdown (which would skip its removal from the dealer)
	c.R.Floor(r10, 14)
}

// policyConsts collects the string constants c compared for equality in atoms
// of fn matching the pattern (first capture group).
func policyConsts(c *Ctx, fnName, pattern string) []string {
	fn := c.Fn("C03.R4 accepted invocation policies = arms of the selection switch", fnName)
	if fn == nil {
		return nil
	}
	r := re(pattern)
	set := map[string]bool{}
	for _, a := range ir.AtomsOf(fn) {
		if m := r.FindStringSubmatch(a); m != nil {
			set[m[1]] = true
		}
	}
	var out []string
	for k := range set {
		out = append(out, k)
	}
	sort.Strings(out)
	return out
}

// localIs: the address-taken local `name` of fn is assigned only from values
// matching valRe (used to tie values captured by an action closure to what was
// validated).
func (c *Ctx) localIs(rule, fnName, name, valRe string) {
	fn := c.Fn(rule, fnName)
	if fn == nil {
		return
	}
	r := re(valRe)
	n, bad := 0, ""
	for _, in := range ir.Instrs(fn) {
		if st, ok := in.(*ssa.Store); ok && ir.Desc(st.Addr) == "&local:"+name {
			n++
			if d := ir.Desc(st.Val); !r.MatchString(d) {
				bad = d
			}
		}
	}
	c.R.Check(n > 0 && bad == "", rule, fnName, "captured "+name+" is /"+valRe+"/", c.P.FuncPos(fn), "local "+name+" assigned from "+bad+" (stores: "+itoa(n)+")")
}

// localAssigned is localIs that also reports the verdict.
func (c *Ctx) localAssigned(rule, fnName, name, valRe string) bool {
	fn := c.P.Func(fnName)
	if fn == nil {
		c.localIs(rule, fnName, name, valRe)
		return false
	}
	r := re(valRe)
	n, bad := 0, false
	for _, in := range ir.Instrs(fn) {
		if st, ok := in.(*ssa.Store); ok && ir.Desc(st.Addr) == "&local:"+name {
			n++
			if !r.MatchString(ir.Desc(st.Val)) {
				bad = true
			}
		}
	}
	c.localIs(rule, fnName, name, valRe)
	return n > 0 && !bad
}

func itoa(n int) string { return strconv.Itoa(n) }

func ruleUnregisterMember(c *Ctx, r7 string) {
	// R7 unregister only for a member
	su := dlr + "syncUnregister"
	member := clause("sender is a callee of the registration", T(`^%d\.calleeRegIDSet\[%callee\]\[%msg\.Registration\],ok#1$`))
	okDel := clause("removal succeeded", T(`^\(.*syncDelCalleeReg\(%d, %callee, %msg\.Registration\)#1.* == nil\)$`), T(`^\(call:router\.\(\*dealer\)\.syncDelCalleeReg\(%d, %callee, %msg\.Registration\)#1 == nil\)$`))
	for _, e := range [][2]string{
		{"UNREGISTERED reply", dTrySendTo + `%callee, new\(wamp\.Unregistered\)\)$`},
		{"removal from registration", `^call:router\.\(\*dealer\)\.syncDelCalleeReg\(%d, %callee, %msg\.Registration\)$`},
		{"meta events", `^store:new\(wamp\.Publish\)\.&Topic=`},
		{"callee's set edited", `^call:builtin:delete\(%d\.calleeRegIDSet`},
	} {
		c.Guard(r7, su, e[0], e[1], 1, member)
	}
	c.Guard(r7, su, "UNREGISTERED only when removal succeeded", dTrySendTo+`%callee, new\(wamp\.Unregistered\)\)$`, 1, okDel)
	c.Fields(r7, su, "no_such_registration reply", "wamp.Error", fieldIs("Error", `no_such_registration`), map[string]string{
		"Request": `^%msg\.Request$`, "Type": `^call:wamp\.\(\*Unregister\)\.MessageType\(%msg\)$`}, 1)
	c.Fields(r7, su, "UNREGISTERED literal", "wamp.Unregistered", nil, map[string]string{"Request": `^%msg\.Request$`}, 1)
}

// rulePolicyAgreement: the invocation policies register accepts (and stores verbatim) are exactly the arms of the
// selection switch in syncCall, whose default arm is an invariant panic.
func rulePolicyAgreement(c *Ctx, r4 string) {
	reg := dlr + "register"
	accepted := policyConsts(c, reg, `^\(call:wamp\.AsString\(%msg\.Options\["invoke"\]\)#0 == ("[a-z]*")\)$`)
	selected := policyConsts(c, dlr+"syncCall", `^\(`+dReg+`\.policy == ("[a-z]*")\)$`)
	// policies under which a second callee can be admitted = accepted \ {"", single}
	var shared []string
	for _, p := range accepted {
		if p != `""` && p != `"single"` {
			shared = append(shared, p)
		}
	}
	c.R.Check(strings.Join(shared, ",") == strings.Join(selected, ",") && len(selected) >= 2, r4, reg, "shared policies accepted by register == arms of syncCall's switch",
		c.P.FuncPos(c.P.Func(reg)), "register accepts "+strings.Join(accepted, ",")+" but syncCall selects for "+strings.Join(selected, ","))
	// the hand-off is guarded by the validation switch
	var okEdges []ir.EdgeSpec
	for _, p := range accepted {
		okEdges = append(okEdges, T(`^\(call:wamp\.AsString\(%msg\.Options\["invoke"\]\)#0 == `+q(p)+`\)$`))
	}
	c.Guard(r4, reg, "hand-off", `^send:%d\.actionChan<-closure:`, 1, clause("invoke policy is a known one", okEdges...))
	c.Has(r4, reg+"$1", "validated values are the ones registered", `^call:router\.\(\*dealer\)\.syncRegister\(\^d, \^callee, \^msg, \^match, \^invoke, \^disclose, \^forwardTimeout(, \^wampURI)?\)$`, 1)
	for _, w := range [][2]string{
		{"match", `^call:wamp\.AsString\(%msg\.Options\["match"\]\)#0$`},
		{"invoke", `^call:wamp\.AsString\(%msg\.Options\["invoke"\]\)#0$`},
		{"wampURI", `^call:strings\.HasPrefix\(%msg\.Procedure, "wamp\."\)$`},
		{"disclose", `^%msg\.Options\["disclose_caller"\]\.\(bool\),ok#0$`},
		{"forwardTimeout", `^%msg\.Options\["forward_timeout"\]\.\(bool\),ok#0$`},
	} {
		if w[0] == "wampURI" {
			// the restricted-procedure mark may be recomputed by syncRegister instead of being captured
			if fn := c.P.Func(reg); fn != nil && len(matches(fn, `^store:&local:wampURI=`)) == 0 {
				c.Has(r4, dlr+"syncRegister", "restricted-procedure mark computed from the procedure", `^call:strings\.HasPrefix\(%msg\.Procedure, "wamp\."\)$`, 1)
				continue
			}
		}
		c.localIs(r4, reg, w[0], w[1])
	}
	// selection arms pick from the registration's callees
	c.Guard(r4, dlr+"syncCall", "selection by policy", `^val:`+dReg+`\.callees\[[^0]`, 3, clause("several callees", T(`^\(1 < call:builtin:len\(`+dReg+`\.callees\)\)$`)))
}

// ruleProgressiveStickiness: all chunks of a progressive call invocation go to the recorded invocation, whose
// in-progress mark follows every chunk, so that the call is forgotten exactly once after the final result.
func ruleProgressiveStickiness(c *Ctx, r9 string) {
	sc := dlr + "syncCall"
	sy := dlr + "syncYield"
	syd := sy + "$1"
	for _, del := range []string{
		`^call:builtin:delete\(\^d\.invocations, \^invkReqID\)$`,
		`^call:builtin:delete\(\^d\.invocationByCall, \^callID\)$`,
		`^call:builtin:delete\(\^d\.calls, \^callID\)$`,
	} {
		c.Guard(r9, syd, "cleanup "+del, del, 1, clause("caller's progressive call is not in progress any more", F(`^\^invk\.inProgress$`)))
	}
	c.Has(r9, sc, "continuation chunk updates the in-progress mark of the stored invocation",
		`^store:%d\.invocations\[%d\.invocationByCall\[`+dCallKey+`\],ok#0\]\.&inProgress=%msg\.Options\["progress"\]\.\(bool\),ok#0$`, 1)
	c.Fields(r9, sc, "invocation literal records the in-progress mark", "router.invocation", nil, map[string]string{"inProgress": `^%msg\.Options\["progress"\]\.\(bool\),ok#0$`}, 1)
}
