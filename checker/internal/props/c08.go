package props

import (
	"fmt"
	"strings"

	"golang.org/x/tools/go/ssa"

	"nxcheck/internal/ir"
)

func init() {
	register(&Check{
		ID: "C08",
		Decides: "that the pipeline from a session's receive loop to the recipient's queue preserves order stage by stage: no goroutine is spawned between receiving a message and handing it to the broker/dealer goroutine " +
			"(the call timer, which posts a cancel and never a reply, excepted); hand-offs are direct sends on unbuffered action channels consumed by one loop; SUBSCRIBED/UNSUBSCRIBED/EVENT are built and sent only " +
			"by code confined to the broker goroutine and REGISTERED/UNREGISTERED/INVOCATION/INTERRUPT/RESULT only by code confined to the dealer goroutine, in the same action that changes the routing tables " +
			"(subscriber removed before UNSUBSCRIBED, callee removed before UNREGISTERED); each transport peer has exactly one goroutine draining its outbound queue.",
		NotDecided: "the effect of dropped messages (full queues) on an application's view of order, client-side handler ordering (C16), scheduling.",
		Run: runC08,
	})
}

func runC08(c *Ctx) {
	cf, roles, _ := computeRoles(c, "C08.R1 no goroutine spawned on the dispatch path")

	const r1 = "C08.R1 no goroutine spawned on the dispatch path"
	allowedGo := map[string]string{
		dlr + "syncCall": "call timeout timer: posts a cancel action later, never a reply or routed message",
	}
	nFn, nGo := 0, 0
	seen := map[*ssa.Function]bool{}
	for fn := range roles["meta-handler"] {
		seen[fn] = true
	}
	for fn, o := range cf.conf {
		if o == "broker" || o == "dealer" {
			seen[fn] = true
		}
	}
	for fn := range seen {
		name := ir.ShortName(fn)
		if !strings.HasPrefix(name, "router.") {
			continue
		}
		nFn++
		for _, in := range ir.Instrs(fn) {
			if _, ok := in.(*ssa.Go); ok {
				nGo++
				_, ok := allowedGo[name]
				c.R.Check(ok, r1, name, "go statement on the routing path: "+ir.InstrDesc(in), c.pos(in),
					"a goroutine is started between the receipt of a session's message and its delivery: messages handled by it can overtake later ones of the same session")
			}
		}
	}
	c.R.Check(nFn >= 40 && nGo >= 1, r1, "router", "routing-path functions enumerated", "-", fmt.Sprintf("functions=%d go statements=%d", nFn, nGo))
	// the session loop handles one message at a time: dispatch calls are direct calls
	him := rlm + "handleInboundMessages"
	c.AllMatch(r1, him, "dispatch is a direct call in the receive loop", `^(call|go|defer):router\.\(\*(broker|dealer)\)\.`, `^call:`, 9)
	c.R.Floor(r1, 10)

	const r2 = "C08.R2 acknowledgements and routed messages are sent by the owning goroutine"
	ownerOfMsg := map[string]string{
		"wamp.Subscribed": "broker", "wamp.Unsubscribed": "broker", "wamp.Event": "broker",
		"wamp.Registered": "dealer", "wamp.Unregistered": "dealer", "wamp.Invocation": "dealer", "wamp.Interrupt": "dealer", "wamp.Result": "dealer",
	}
	nAlloc := 0
	for _, fn := range c.P.FuncsIn("router") {
		name := ir.ShortName(fn)
		for _, in := range ir.Instrs(fn) {
			a, ok := in.(*ssa.Alloc)
			if !ok {
				continue
			}
			t := strings.TrimPrefix(ir.TypeStr(a.Type()), "*")
			o, ok := ownerOfMsg[t]
			if !ok {
				continue
			}
			nAlloc++
			c.R.Check(cf.conf[fn] == o, r2, name, "a "+t+" is built by code confined to the "+o+" goroutine", c.pos(in),
				t+" is built in "+name+", which does not run on the "+o+" goroutine: it would enter the recipient's queue from another goroutine than the traffic it must be ordered against")
		}
	}
	c.R.Check(nAlloc >= 12, r2, "router", "message literals enumerated", "-", fmt.Sprintf("found %d", nAlloc))
	// every delivery call/send in router: classify by the static type of the message
	preHandoff := map[string]bool{brk + "publish": true, brk + "subscribe": true, dlr + "register": true, dlr + "cancel": true, rlm + "authzMessage": true}
	nDeliver := 0
	for _, fn := range c.P.FuncsIn("router") {
		name := ir.ShortName(fn)
		for _, in := range ir.Instrs(fn) {
			var msgs []ssa.Value
			switch x := in.(type) {
			case *ssa.Call:
				if f := x.Call.StaticCallee(); f != nil && (ir.ShortName(f) == brk+"trySend" || ir.ShortName(f) == dlr+"trySend") {
					msgs = append(msgs, x.Call.Args[2])
				}
			case *ssa.Send:
				if strings.Contains(ir.Desc(x.Chan), "wamp.Peer.Send[") {
					msgs = append(msgs, x.X)
				}
			case *ssa.Select:
				for _, st := range x.States {
					if st.Send != nil && strings.Contains(ir.Desc(st.Chan), "wamp.Peer.Send[") {
						msgs = append(msgs, st.Send)
					}
				}
			}
			for _, m := range msgs {
				nDeliver++
				t := strings.TrimPrefix(ir.StaticType(m), "*")
				if name == brk+"trySend" || name == dlr+"trySend" {
					continue // the helpers themselves
				}
				if o, ok := ownerOfMsg[t]; ok {
					c.R.Check(cf.conf[fn] == o, r2, name, "a "+t+" is sent by code confined to the "+o+" goroutine", c.pos(in), t+" is sent from "+name)
					continue
				}
				if t == "wamp.Message" {
					// statically untyped message: only allowed inside the owners (prepared events), the meta procedure handler's reply, or a goodbye
					ok := cf.conf[fn] == "broker" || cf.conf[fn] == "dealer" || name == rlm+"metaProcedureHandler"
					c.R.Check(ok, r2, name, "message of statically unknown type sent by an owner goroutine or the meta procedure handler", c.pos(in),
						"a wamp.Message whose concrete type is not visible is sent from "+name+": it may be an acknowledgement or routed message leaving from the wrong goroutine")
					continue
				}
				if t == "wamp.Error" && cf.conf[fn] == "" {
					c.R.Check(preHandoff[name] || name == rlm+"metaProcedureHandler", r2, name, "ERROR sent outside the owners only as a refusal before any hand-off", c.pos(in),
						"an ERROR is sent from "+name+", which is neither an owner goroutine nor one of the reviewed pre-hand-off refusal sites")
					if preHandoff[name] && name != rlm+"authzMessage" {
						// nothing is handed off after the refusal
						w := (&ir.Walk{}).From(in.Block(), ir.IndexOf(in)+1)
						bad := false
						for r := range w.Reached {
							if s, ok := r.(*ssa.Send); ok && strings.HasSuffix(ir.Desc(s.Chan), ".actionChan") {
								bad = true
							}
						}
						c.R.Check(!bad, r2, name, "no hand-off follows a refusal ERROR", c.pos(in), "after sending the refusal the request is still handed to the owner goroutine")
					}
				}
			}
		}
	}
	c.R.Check(nDeliver >= 45, r2, "router", "delivery sites enumerated", "-", fmt.Sprintf("found %d", nDeliver))
	// same-action ordering
	su := brk + "syncUnsubscribe"
	c.Reach(r2, su, "subscriber removed before UNSUBSCRIBED is sent", ReachSpec{Stop: `^call:builtin:delete\(.*\.subscribers, %subscriber\)$`, Target: `^call:router\.\(\*broker\)\.trySend\(%b, %subscriber, new\(wamp\.Unsubscribed\)\)$`, Want: false})
	sun := dlr + "syncUnregister"
	c.Reach(r2, sun, "callee removed before UNREGISTERED is sent", ReachSpec{Stop: `^call:router\.\(\*dealer\)\.syncDelCalleeReg\(%d, %callee, %msg\.Registration\)$`, Target: `^call:router\.\(\*dealer\)\.trySend\(%d, %callee, new\(wamp\.Unregistered\)\)$`, Want: false})
	ss := brk + "syncSubscribe"
	c.Has(r2, ss, "SUBSCRIBED sent in the action that adds the subscriber", `^call:router\.\(\*broker\)\.trySend\(%b, %subscriber, new\(wamp\.Subscribed\)\)$`, 2)
	c.Has(r2, ss, "subscriber added in the same action", `^mapupdate:.*\.subscribers\[%subscriber\]=nil$|^call:router\.\(\*broker\)\.syncInitSubscription\(%b, %msg\.Topic, %match, %subscriber\)$`, 1)
	sr := dlr + "syncRegister"
	c.Has(r2, sr, "REGISTERED sent in the action that adds the callee", `^call:router\.\(\*dealer\)\.trySend\(%d, %callee, new\(wamp\.Registered\)\)$`, 1)
	ruleNoDuplicateCallee(c, r2) // one entry per callee: UNREGISTERED really ends the INVOCATIONs
	c.R.Floor(r2, 50)

	const r3 = "C08.R3 hand-offs are unbuffered and consumed by one loop"
	for _, f := range []string{"router.newBroker", "router.newDealer", "router.newRealm", "router.NewRouter"} {
		c.Has(r3, f, "action channel is unbuffered", `^store:new\(router\.\w+\)\.&actionChan=makechan\(chan func\(\),0\)$`, 1)
	}
	for _, o := range []string{"broker", "dealer"} {
		run := "router.(*" + o + ").run"
		if fn := c.Fn(r3, run); fn != nil {
			n := 0
			for _, in := range ir.Instrs(fn) {
				if _, ok := in.(*ssa.Go); ok {
					n++
				}
			}
			c.R.Check(n == 0 && len(matches(fn, `^call:dyn:`)) == 1, r3, run, "actions are executed one at a time, in arrival order, by the loop itself", c.P.FuncPos(fn), "the loop spawns goroutines or does not call the action directly")
		}
		nRecv := 0
		for _, fn := range c.P.FuncsIn("router") {
			for _, in := range ir.Instrs(fn) {
				if v, ok := in.(ssa.Value); ok {
					d := ir.Desc(v)
					if (strings.HasPrefix(d, "range(") || strings.HasPrefix(d, "<-")) && strings.Contains(d, ".actionChan") && !strings.Contains(d, "#") && strings.Contains(ir.ShortName(fn), "(*"+o+")") {
						nRecv++
						c.R.Check(ir.ShortName(fn) == run, r3, ir.ShortName(fn), o+".actionChan is received only by its loop", c.pos(in), "a second receiver would reorder actions")
					}
				}
			}
		}
		c.R.Check(nRecv == 1, r3, run, "exactly one receiver of "+o+".actionChan", "-", fmt.Sprintf("found %d", nRecv))
	}
	c.R.Floor(r3, 10)

	const r4 = "C08.R4 one draining goroutine per transport peer"
	for _, t := range []struct{ ctor, typ string }{{"transport.newRawSocketPeer", "rawSocketPeer"}, {"transport.NewWebsocketPeer", "websocketPeer"}} {
		fn := c.Fn(r4, t.ctor)
		if fn == nil {
			continue
		}
		gos := matches(fn, `^go:transport\.\(\*`+t.typ+`\)\.`)
		var names []string
		for _, g := range gos {
			names = append(names, ir.InstrDesc(g))
		}
		switch t.typ {
		case "rawSocketPeer":
			c.R.Check(len(gos) == 2, r4, t.ctor, "one receive and one send goroutine", c.P.FuncPos(fn), strings.Join(names, ", "))
		default:
			c.R.Check(len(gos) == 3, r4, t.ctor, "one receive goroutine and one of the two send loops", c.P.FuncPos(fn), strings.Join(names, ", "))
			c.Guard(r4, t.ctor, "keep-alive sender", `^go:transport\.\(\*websocketPeer\)\.sendHandlerKeepAlive\(`, 1, clause("keepAlive set", F(`^\(%keepAlive == 0\)$`)))
			c.Guard(r4, t.ctor, "plain sender", `^go:transport\.\(\*websocketPeer\)\.sendHandler\(`, 1, clause("keepAlive not set", T(`^\(%keepAlive == 0\)$`)))
		}
	}
	// the outbound queue is received from only by the send loop(s) and the drain in Close
	for _, fn := range c.P.FuncsIn("transport") {
		name := ir.ShortName(fn)
		for _, in := range ir.Instrs(fn) {
			var chans []string
			switch x := in.(type) {
			case *ssa.Select:
				for _, st := range x.States {
					if st.Send == nil {
						chans = append(chans, ir.Desc(st.Chan))
					}
				}
			case *ssa.UnOp:
				if x.Op.String() == "<-" {
					chans = append(chans, ir.Desc(x.X))
				}
			case *ssa.Range:
				chans = append(chans, ir.Desc(x.X))
			}
			for _, ch := range chans {
				if strings.HasSuffix(ch, ".wr") {
					ok := strings.HasSuffix(name, ".sendHandler") || strings.HasSuffix(name, ".sendHandlerKeepAlive") || strings.HasSuffix(name, ".Close")
					c.R.Check(ok, r4, name, "outbound queue "+ch+" drained only by the send loop (and Close)", c.pos(in), "a second consumer of the outbound queue reorders messages")
				}
			}
		}
	}
	c.R.Floor(r4, 8)

	const r5 = "C08.R5 the client hands events to their handler in arrival order"
	he := cl + "runHandleEvent"
	c.HasNot(r5, he, "no goroutine per event", `^go:`)
	c.Has(r5, he, "handler called directly by the receive loop", `^call:dyn:`, 1)
	sc := cl + "SubscribeChan$1"
	c.Has(r5, sc, "SubscribeChan delivers with one blocking send on the subscriber's channel", `^send:\^events<-%ev$`, 1)
	c.HasNot(r5, sc, "SubscribeChan spawns no goroutine", `^go:`)
	c.R.Check(c.P.Func(sc+"$1") == nil, r5, sc, "SubscribeChan's handler has no nested closure (no deferred delivery)", "-", "a nested closure in the SubscribeChan handler: events handed over asynchronously can overtake each other")
	c.R.Floor(r5, 5)
}
