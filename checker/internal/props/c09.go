package props

import (
	"fmt"
	"go/types"
	"strings"

	"golang.org/x/tools/go/ssa"

	"nxcheck/internal/ir"
)

func init() {
	register(&Check{
		ID: "C09",
		Decides: "that in AttachClient a session is handed to the realm and WELCOME is sent only on paths where the first message was a HELLO, its realm is non-empty and was resolved, a client role was announced and " +
			"authClient returned no error, and that every other exit sent ABORT (or closed the peer when no HELLO arrived); that handleSession, the realm's client table, WELCOME construction and the WELCOME send have no " +
			"other callers/sites; that every in-module authenticator with a challenge draws it from crypto/rand in the same activation and feeds that very value, together with the client's signature, to the " +
			"verification whose result guards the success return (ticket: the stored ticket comparison); that success WELCOME details carry authid, authrole, authprovider (authmethod is set by authClient from " +
			"the selected method) and that session details are assembled HELLO first, WELCOME second, router-generated session id last.",
		NotDecided: "cryptographic strength, user-supplied authenticators and key stores (BypassKeyStore.AlreadyAuth is trusted by design), timing side channels, the by-design acceptance of HELLO authid for local peers without RequireLocalAuth.",
		Run: runC09,
	})
}

func runC09(c *Ctx) {
	ac := "router.(*router).AttachClient"
	hello := `call:wamp\.RecvTimeout\(%client, 5000000000\)#0\.\(\*wamp\.Hello\),ok`
	authc := `call:router\.\(\*realm\)\.authClient\(local:realm, call:wamp\.GlobalID\(\), %client, ` + hello + `#0\.Details\)`

	const r1 = "C09.R1 attach only after HELLO, realm, role and authentication checks"
	guards := []ir.Clause{
		clause("a message arrived", T(`^\(call:wamp\.RecvTimeout\(%client, 5000000000\)#1 == nil\)$`)),
		clause("first message is HELLO", T(`^`+hello+`#1$`)),
		clause("realm named", F(`^\(`+hello+`#0\.Realm == ""\)$`)),
		clause("realm resolved by the router goroutine", T(`^\(<-makechan\(chan error,0\) == nil\)$`)),
		clause("a client role announced", T(`^call:slices\.ContainsFunc\(newarr\(\[4\]string\)\[:\], closure:wamp\.HasRole\$bound\)$`)),
		clause("authentication succeeded", T(`^\(`+authc+`#1 == nil\)$`)),
	}
	hs := `^call:router\.\(\*realm\)\.handleSession\(local:realm, call:wamp\.NewSession\(%client, call:wamp\.GlobalID\(\), nil, ` + hello + `#0\.Details\)\)$`
	c.Guard(r1, ac, "session handed to the realm", hs, 1, guards...)
	welcome := `^send:call:invoke:wamp\.Peer\.Send\[%client\]\(\)<-` + authc + `#0$`
	c.Guard(r1, ac, "WELCOME sent", welcome, 1, append(guards, clause("realm accepted the session", T(`^\(call:router\.\(\*realm\)\.handleSession\(.*\) == nil\)$`)))...)
	// the ABORT helper (a local closure in the pinned tree) is inlined by the normalisation pass: an ABORT is the send of
	// the local abort message to the client, followed by closing the peer
	abort := `^send:call:invoke:wamp\.Peer\.Send\[%client\]\(\)<-&local:abortMsg$`
	c.Reach(r1, ac, "every exit sent WELCOME or ABORT, or closed the peer", ReachSpec{
		Stop: abort + `|^call:invoke:wamp\.Peer\.Close\[%client\]\(\)$|` + welcome,
		Cut:  []ir.Clause{clause("realm lookup failed (the action sent ABORT)", F(`^\(<-makechan\(chan error,0\) == nil\)$`))}, Target: "EXIT", Want: false})
	c.Reach(r1, ac, "nothing is attached after an ABORT", ReachSpec{From: abort, Target: hs + `|` + welcome, Want: false})
	a2 := ac + "$1"
	c.Reach(r1, a2, "realm lookup failures send ABORT before reporting the error", ReachSpec{Stop: `^send:call:invoke:wamp\.Peer\.Send\[\^client\]\(\)<-&local:abortMsg$`, Target: `^send:\^sync<-call:`, Want: false})
	c.Guard(r1, a2, "realm resolved", `^send:\^sync<-nil$`, 1,
		clause("router open", F(`^\^r\.closed$`)),
		clause("realm exists or was created from the template", T(`^\^r\.realms\[\^hello\.Realm\],ok#1$`), T(`^\(\^err == nil\)$`)))
	c.Has(r1, a2, "realm looked up by HELLO.Realm", `^store:\^realm=\^r\.realms\[\^hello\.Realm\],ok#0$`, 1)
	for _, f := range []struct{ fn, cl, tgt string }{{ac, `%client`, "EXIT"}, {a2, `\^client`, `^send:\^sync<-`}} {
		c.Fields(r1, f.fn, "ABORT literal", "wamp.Abort", fieldIs("Reason", `.`), map[string]string{"Reason": `^"wamp\.(error|close)\.[a-z_]+"$`}, 1)
		c.Reach(r1, f.fn, "ABORT then close", ReachSpec{From: `^send:call:invoke:wamp\.Peer\.Send\[` + f.cl + `\]\(\)<-&local:abortMsg$`, Stop: `^call:invoke:wamp\.Peer\.Close\[` + f.cl + `\]\(\)$`, Target: f.tgt, Want: false})
	}
	ruleOnlyInProcessIsLocal(c, r1)
	c.R.Floor(r1, 24)

	const r2 = "C09.R2 single attach path"
	c.OnlyCalledFrom(r2, "realm.handleSession", `^router\.\(\*realm\)\.handleSession$`, `^router\.\(\*router\)\.AttachClient$`, 1)
	c.OnlyCalledFrom(r2, "realm.authClient", `^router\.\(\*realm\)\.authClient$`, `^router\.\(\*router\)\.AttachClient$`, 1)
	c.OnlyCalledFrom(r2, "realm.onJoin", `^router\.\(\*realm\)\.onJoin$`, `^router\.\(\*realm\)\.handleSession$`, 1)
	nClients, nWelcome := 0, 0
	for _, fn := range c.P.NexusFuncs {
		name := ir.ShortName(fn)
		if !libFunc(name) || strings.HasPrefix(name, "client.") {
			continue
		}
		for _, in := range ir.Instrs(fn) {
			switch x := in.(type) {
			case *ssa.MapUpdate:
				if strings.HasSuffix(ir.Desc(x.Map), "r.clients") {
					nClients++
					c.R.Check(name == rlm+"onJoin$1", r2, name, "write to realm.clients", c.pos(in), "the realm's client table is written outside onJoin's action")
				}
			case *ssa.Alloc:
				if ir.TypeStr(x.Type()) == "*wamp.Welcome" {
					nWelcome++
					ok := name == rlm+"authClient" || strings.HasPrefix(name, "router/auth.") || name == "wamp.NewMessage" || strings.HasPrefix(name, "transport/serialize.")
					c.R.Check(ok, r2, name, "WELCOME constructed", c.pos(in), "a WELCOME message is built outside authClient and the authenticators")
				}
			}
		}
	}
	c.R.Check(nClients == 1 && nWelcome >= 5, r2, "router", "client-table writes and WELCOME literals enumerated", "-", fmt.Sprintf("clients writes=%d welcome literals=%d", nClients, nWelcome))
	c.R.Floor(r2, 9)

	const r3 = "C09.R3 challenge issued in this handshake is the one verified"
	authPkg := c.P.ByRel["router/auth"]
	if authPkg == nil {
		c.R.Unknown(r3, "router/auth", "package", "-", "package router/auth not loaded")
		return
	}
	iface, _ := authPkg.Types.Scope().Lookup("Authenticator").Type().Underlying().(*types.Interface)
	nAuth := 0
	for _, nm := range authPkg.Types.Scope().Names() {
		tn, ok := authPkg.Types.Scope().Lookup(nm).(*types.TypeName)
		if !ok || iface == nil {
			continue
		}
		pt := types.NewPointer(tn.Type())
		if !types.Implements(pt, iface) || types.IsInterface(tn.Type()) {
			continue
		}
		nAuth++
		fname := "router/auth.(*" + nm + ").Authenticate"
		fn := c.Fn(r3, fname)
		if fn == nil {
			continue
		}
		checkAuthenticator(c, r3, fname, fn)
	}
	c.R.Check(nAuth >= 4, r3, "router/auth", "authenticator implementations enumerated", "-", fmt.Sprintf("found %d types implementing auth.Authenticator, 4 confirmed by reading", nAuth))
	ruleRandomLength(c, r3)
	c.R.Floor(r3, 15)

	const r5 = "C09.R5 identity recorded for a session comes from router and authenticator"
	acl := rlm + "authClient"
	c.Has(r5, acl, "authmethod set from the selected authenticator's method", `^mapupdate:call:invoke:auth\.Authenticator\.Authenticate\[.*\]\(%sid, %details, %client\)#0\.Details\["authmethod"\]=call:router\.\(\*realm\)\.getAuthenticator\(.*\)#1$`, 1)
	c.Guard(r5, acl, "local trusted identity", `^mapupdate:makemap\(wamp\.Dict\)\["authrole"\]="trusted"$`, 1,
		clause("in-process peer", T(`^call:invoke:wamp\.Peer\.IsLocal\[%client\]\(\)$`)), clause("local authentication not required", F(`^%r\.localAuth$`)))
	for _, k := range []string{"authid", "authrole", "authmethod", "authprovider"} {
		c.Has(r5, acl, "local WELCOME details carry "+k, `^mapupdate:makemap\(wamp\.Dict\)\["`+k+`"\]=`, 1)
	}
	c.Guard(r5, acl, "authenticator's WELCOME returned", `^return:call:invoke:auth\.Authenticator\.Authenticate\[.*#0, nil$`, 1,
		clause("authenticator returned no error", T(`^\(call:invoke:auth\.Authenticator\.Authenticate\[.*\]\(%sid, %details, %client\)#1 == nil\)$`)),
		clause("an authenticator for an offered method exists", F(`^\(call:router\.\(\*realm\)\.getAuthenticator\(.*\)#0 == nil\)$`)))
	// the method name reported (and stored as authmethod) is the very key under which the authenticator was found
	if fn := c.Fn(r5, rlm+"getAuthenticator$1"); fn != nil {
		var key, meth []string
		kre, mre := re(`^store:\^auth=\^r\.authenticators\[(.*)\],ok#0$`), re(`^store:\^authMethod=(.*)$`)
		var at ssa.Instruction
		for _, in := range ir.Instrs(fn) {
			d := ir.InstrDesc(in)
			if m := kre.FindStringSubmatch(d); m != nil {
				key = append(key, m[1])
				at = in
			}
			if m := mre.FindStringSubmatch(d); m != nil {
				meth = append(meth, m[1])
			}
		}
		if len(key) != 1 || len(meth) != 1 {
			c.R.Unknown(r5, rlm+"getAuthenticator$1", "authenticator selected and its method name recorded", c.P.FuncPos(fn), fmt.Sprintf("expected one store of the authenticator and one of its method name, found %d and %d", len(key), len(meth)))
		} else {
			c.R.Check(key[0] == meth[0], r5, rlm+"getAuthenticator$1", "reported method name is the key the authenticator was looked up under", c.pos(at),
				"the authenticator is looked up under "+key[0]+" but the method reported to the client and stored as authmethod is "+meth[0])
		}
	}
	ruleSessionDetailsOrder(c, r5)
	c.Has(r5, ac, "session details stored on the session", `^store:call:wamp\.NewSession\(.*\)\.&Details=makemap\(wamp\.Dict\)$`, 1)
	c.Before(r5, ac, "details complete before the session is handed to the realm", `^store:call:wamp\.NewSession\(.*\)\.&Details=makemap\(wamp\.Dict\)$`, hs)
	c.Has(r5, ac, "WELCOME carries the router-generated session id", `^store:`+authc+`#0\.&ID=call:wamp\.GlobalID\(\)$`, 1)
	if fn := c.Fn(r5, ac); fn != nil {
		n := len(matches(fn, `^call:wamp\.GlobalID\(\)$`))
		c.R.Check(n == 1, r5, ac, "one session id per attach", c.P.FuncPos(fn), "GlobalID is called more than once: WELCOME.ID, session details and authenticator could disagree")
	}
	c.R.Floor(r5, 14)
}

// checkAuthenticator applies the challenge-binding rule to one Authenticate
// method.
func checkAuthenticator(c *Ctx, rule, fname string, fn *ssa.Function) {
	// success returns: return of a non-nil *Welcome with nil error
	var succ []ssa.Instruction
	for _, in := range ir.Exits(fn, false) {
		r := in.(*ssa.Return)
		if len(r.Results) == 2 && ir.Desc(r.Results[1]) == "nil" && ir.Desc(r.Results[0]) != "nil" {
			succ = append(succ, in)
		}
	}
	if len(succ) == 0 {
		c.R.Unknown(rule, fname, "success return", c.P.FuncPos(fn), "no `return welcome, nil` found")
		return
	}
	// the key store's OnWelcome hook announces a successful authentication: it is a success point like the return
	nret := len(succ)
	for _, in := range matches(fn, `^call:invoke:auth\.BypassKeyStore\.OnWelcome\[`) {
		succ = append(succ, in)
	}
	what := func(i int) string {
		if i < nret {
			return fmt.Sprintf("success return %d", i)
		}
		return fmt.Sprintf("OnWelcome hook %d", i-nret)
	}
	// WELCOME details keys
	for _, in := range ir.Instrs(fn) {
		if a, ok := in.(*ssa.Alloc); ok && ir.TypeStr(a.Type()) == "*wamp.Welcome" {
			keys := map[string]bool{}
			for _, d := range ir.LiteralFields(a)["Details"] {
				if mm, ok := d.(*ssa.MakeMap); ok {
					for _, r := range *mm.Referrers() {
						if mu, ok := r.(*ssa.MapUpdate); ok {
							keys[strings.Trim(ir.Desc(mu.Key), `"`)] = true
						}
					}
				}
			}
			okKeys := keys["authid"] && keys["authrole"] && keys["authprovider"]
			c.R.Check(okKeys, rule, fname, "success WELCOME details carry authid, authrole, authprovider", c.pos(in), fmt.Sprintf("keys present: %v", keys))
		}
	}
	// challenge
	var chal ssa.Value
	for _, in := range ir.Instrs(fn) {
		if mu, ok := in.(*ssa.MapUpdate); ok && ir.Desc(mu.Key) == `"challenge"` {
			chal = mu.Value
		}
	}
	bypass := clause("key store says already authenticated (trusted BypassKeyStore)", T(`^call:invoke:auth\.BypassKeyStore\.AlreadyAuth\[`))
	if chal == nil {
		// no challenge data: ticket (stored secret comparison) or anonymous (no verification by definition)
		hasRecv := len(matches(fn, `^call:wamp\.RecvTimeout\(`)) > 0
		if !hasRecv {
			c.R.OK(rule, fname, "no challenge/response: method accepts without verification by definition (anonymous)", c.P.FuncPos(fn), "")
			return
		}
		for i, s := range succ {
			g1, _ := ir.GuardedBy(fn, s, clause("bypass or ticket equals the stored one",
				bypass.Edges[0], T(`^\(call:wamp\.RecvTimeout\(%client, .*\)#0\.\(\*wamp\.Authenticate\),ok#0\.Signature == conv:string\(phi\(call:invoke:auth\.KeyStore\.AuthKey\[`)))
			g2, _ := ir.GuardedBy(fn, s, clause("bypass or a ticket is stored for the authid", bypass.Edges[0], F(`^\((phi\()?call:invoke:auth\.KeyStore\.AuthKey\[.* == nil\)$`), F(`^\(nil == nil\)$`)))
			c.R.Check(g1 && g2, rule, fname, what(i)+" guarded by ticket comparison", c.pos(s), "WELCOME is returned (or the key store told the client is welcome) on a path that does not compare the client's ticket with the stored one")
		}
		return
	}
	// source of the challenge: strip encoders
	src := chal
	for {
		if mi, ok := src.(*ssa.MakeInterface); ok {
			src = mi.X
			continue
		}
		if call, ok := src.(*ssa.Call); ok && call.Call.StaticCallee() != nil && strings.HasPrefix(call.Call.StaticCallee().String(), "encoding/") && len(call.Call.Args) == 1 {
			src = call.Call.Args[0]
			continue
		}
		break
	}
	// must come from a call (or tuple element of a call) made in this activation that reaches crypto/rand — directly,
	// or as an argument of a formatting/encoding call of a library outside the repository (fmt.Sprintf over the nonce)
	fresh := freshRandom(src, 0)
	c.R.Check(fresh, rule, fname, "challenge is generated from crypto/rand in this activation", c.pos(chal.(ssa.Instruction)),
		"the value put into Challenge.Extra[\"challenge\"] ("+ir.Desc(chal)+") does not come from a call that reaches crypto/rand.Read")
	// verification call: a call taking both the client's signature and the challenge source
	srcD := ir.Desc(src)
	var verify *ssa.Call
	for _, in := range ir.Instrs(fn) {
		call, ok := in.(*ssa.Call)
		if !ok || call.Call.IsInvoke() {
			continue
		}
		hasSig, hasChal := false, false
		for _, a := range call.Call.Args {
			d := ir.Desc(a)
			if strings.HasSuffix(d, ".(*wamp.Authenticate),ok#0.Signature") {
				hasSig = true
			}
			if d == srcD {
				hasChal = true
			}
		}
		if hasSig && hasChal {
			verify = call
		}
	}
	if verify == nil {
		c.R.Bad(rule, fname, "verification takes the client's signature and the issued challenge", c.P.FuncPos(fn),
			"no call in Authenticate receives both AUTHENTICATE.Signature and the challenge issued in this handshake ("+srcD+"): a response captured from another handshake would be accepted")
		return
	}
	c.R.OK(rule, fname, "verification takes the client's signature and the issued challenge", c.pos(verify), "")
	// no argument of the verification (in particular the key) may be the nil constant on some path
	for i, a := range verify.Call.Args {
		if _, isSlice := a.Type().Underlying().(*types.Slice); !isSlice {
			continue
		}
		c.R.Check(!mayBeNilConst(a, 0), rule, fname, fmt.Sprintf("verification argument %d is never the nil constant", i), c.pos(verify),
			"argument "+ir.Desc(a)+" of the verification can be nil on some path (an empty key makes every client able to compute a valid signature)")
	}
	// a substitute key (used when the key store knows no key, so as not to disclose which authids exist) must be
	// unguessable: it comes from crypto/rand in this activation; a non-random value may only stand in next to it
	// (fallback for a failed random source), never replace it
	for i, a := range verify.Call.Args {
		if _, isSlice := a.Type().Underlying().(*types.Slice); !isSlice {
			continue
		}
		var leaves []ssa.Value
		keyLeaves(a, map[ssa.Value]bool{}, &leaves)
		nStore, nFresh := 0, 0
		var other []string
		for _, l := range leaves {
			switch d := ir.Desc(l); {
			case strings.HasPrefix(d, "call:invoke:auth.KeyStore.") || strings.Contains(d, ".(*wamp.Authenticate),ok#0."):
				nStore++
			case freshRandom(l, 0):
				nFresh++
			default:
				other = append(other, d)
			}
		}
		if nStore == 0 || (len(other) == 0 && nFresh == 0) {
			continue // no stored key flows here, or nothing stands in for it
		}
		c.R.Check(nFresh > 0, rule, fname, fmt.Sprintf("substitute for verification argument %d comes from crypto/rand", i), c.pos(verify),
			"when the key store has no key the verification uses "+strings.Join(other, " / ")+", none of which reaches crypto/rand: a client that can guess it is welcomed under any unknown authid")
	}
	vd := regexpQuote(ir.Desc(verify))
	for i, s := range succ {
		g, _ := ir.GuardedBy(fn, s, clause("bypass or verification succeeded", bypass.Edges[0], T(`^`+vd+`(#0)?$`)))
		c.R.Check(g, rule, fname, what(i)+" guarded by the verification result", c.pos(s), "WELCOME is returned (or the key store told the client is welcome) on a path on which the verification result is not true")
	}
	// the verifier really uses the challenge parameter (for in-module verifiers)
	if vf := verify.Call.StaticCallee(); vf != nil && ir.ShortName(vf) != "" && vf.Blocks != nil {
		idx := -1
		for i, a := range verify.Call.Args {
			if ir.Desc(a) == srcD {
				idx = i
			}
		}
		used := false
		if idx >= 0 && idx < len(vf.Params) {
			if refs := vf.Params[idx].Referrers(); refs != nil {
				for _, r := range *refs {
					if _, isDbg := r.(*ssa.DebugRef); !isDbg {
						used = true
					}
				}
			}
		}
		c.R.Check(used, rule, ir.ShortName(vf), "verifier uses its challenge parameter", c.P.FuncPos(vf), "the challenge parameter of the verifier is never used")
		// the challenge must flow into an equality comparison (directly or through a MAC computed from it)
		if idx >= 0 && idx < len(vf.Params) {
			c.R.Check(flowsToComparator(vf, vf.Params[idx], 0), rule, ir.ShortName(vf), "challenge flows into bytes.Equal / hmac.Equal / ConstantTimeCompare", c.P.FuncPos(vf),
				"in "+ir.ShortName(vf)+" the challenge parameter never reaches an equality comparison: any validly signed message would be accepted")
		}
		// and its `true` result depends on a comparison involving it: every `return true`-capable path passes a call taking the parameter
		if idx >= 0 && idx < len(vf.Params) {
			pn := "%" + vf.Params[idx].Name()
			cmp := false
			for _, in := range ir.Instrs(vf) {
				if call, ok := in.(*ssa.Call); ok {
					for _, a := range call.Call.Args {
						if strings.Contains(ir.Desc(a), pn) {
							cmp = true
						}
					}
				}
			}
			c.R.Check(cmp, rule, ir.ShortName(vf), "verifier passes the challenge to a comparison/MAC", c.P.FuncPos(vf), "challenge parameter does not flow into any call")
		}
		// the issued challenge is only read: it (or a re-slice of it) is never handed to a callee as an output buffer,
		// which would overwrite it with attacker-chosen bytes before the comparison
		if idx >= 0 && idx < len(vf.Params) {
			for _, in := range ir.Instrs(vf) {
				call, ok := in.(*ssa.Call)
				if !ok {
					continue
				}
				callee := ir.CalleeName(call.Call.StaticCallee())
				for i, a := range call.Call.Args {
					root := a
					for {
						if sl, ok := root.(*ssa.Slice); ok {
							root = sl.X
							continue
						}
						break
					}
					if root != ssa.Value(vf.Params[idx]) {
						continue
					}
					isCmp := callee == "bytes.Equal" || callee == "crypto/hmac.Equal" || callee == "crypto/subtle.ConstantTimeCompare"
					if _, resliced := a.(*ssa.Slice); resliced && !isCmp {
						c.R.Bad(rule, ir.ShortName(vf), fmt.Sprintf("challenge is not handed out as a buffer (argument %d of %s)", i, callee), c.pos(in),
							"a re-slice of the issued challenge is passed to "+callee+": the callee can overwrite the challenge before it is compared (any earlier signed message then verifies)")
					}
				}
				if callee == "golang.org/x/crypto/nacl/sign.Open" && len(call.Call.Args) > 0 {
					c.R.Check(ir.Desc(call.Call.Args[0]) == "nil", rule, ir.ShortName(vf), "sign.Open writes the opened message into a fresh buffer", c.pos(in),
						"the output buffer of sign.Open is "+ir.Desc(call.Call.Args[0])+", not nil: the opened (attacker-chosen) message may overwrite data it is later compared with")
				}
			}
		}
	}
}

// ruleRandomLength: every buffer the authenticators fill from crypto/rand has its full, non-trivial length (a
// zero-length read "succeeds" and yields an empty, guessable nonce or challenge).
func ruleRandomLength(c *Ctx, rule string) {
	n := 0
	lenRe := re(`^newarr\(\[(\d+)\]byte\)\[:(\d+)\]$`)
	for _, pkg := range []string{"router/auth", "wamp/crsign"} {
		for _, fn := range c.P.FuncsIn(pkg) {
			for _, in := range ir.Instrs(fn) {
				call, ok := in.(*ssa.Call)
				if !ok || ir.CalleeName(call.Call.StaticCallee()) != "crypto/rand.Read" || len(call.Call.Args) != 1 {
					continue
				}
				n++
				d := ir.Desc(call.Call.Args[0])
				okLen := false
				if m := lenRe.FindStringSubmatch(d); m != nil {
					var l int
					fmt.Sscan(m[2], &l)
					okLen = m[1] == m[2] && l >= 16
				} else if sl, isSl := call.Call.Args[0].(*ssa.Slice); isSl && sl.Low == nil && sl.High == nil {
					okLen = true // whole array
				}
				c.R.Check(okLen, rule, ir.ShortName(fn), "random buffer has its full length (>= 16 bytes): "+d, c.pos(in),
					"crypto/rand.Read fills "+d+": a short or empty read leaves the nonce/challenge guessable")
			}
		}
	}
	c.R.Check(n >= 2, rule, "router/auth", "crypto/rand reads enumerated", "-", fmt.Sprintf("found %d", n))
}

// freshRandom: v is produced by a call made in this activation that reaches crypto/rand.Read, or by a call into a
// library outside the repository one of whose arguments (variadic elements included) is.
func freshRandom(v ssa.Value, depth int) bool {
	if depth > 5 {
		return false
	}
	v = ir.StripIface(v)
	var call *ssa.Call
	switch x := v.(type) {
	case *ssa.Call:
		call = x
	case *ssa.Extract:
		call, _ = x.Tuple.(*ssa.Call)
	case *ssa.Convert:
		return freshRandom(x.X, depth+1)
	case *ssa.Slice:
		// a variadic argument list: the elements stored into the backing array
		if a, ok := x.X.(*ssa.Alloc); ok {
			if refs := a.Referrers(); refs != nil {
				for _, r := range *refs {
					if ia, ok := r.(*ssa.IndexAddr); ok {
						if irs := ia.Referrers(); irs != nil {
							for _, u := range *irs {
								if st, ok := u.(*ssa.Store); ok && st.Addr == ia && freshRandom(st.Val, depth+1) {
									return true
								}
							}
						}
					}
				}
			}
		}
		return false
	}
	if call == nil {
		return false
	}
	if f := call.Call.StaticCallee(); f != nil {
		for g := range ir.ReachableFrom(f) {
			if g.String() == "crypto/rand.Read" {
				return true
			}
		}
		if ir.ShortName(f) == "" { // library function: look at what it was given
			for _, a := range call.Call.Args {
				if freshRandom(a, depth+1) {
					return true
				}
			}
		}
	}
	return false
}

func regexpQuote(s string) string { return q(s) }

// flowsToComparator: the parameter (or a value computed from it by calls,
// conversions, slicing) is an argument of a byte-equality function.
func flowsToComparator(fn *ssa.Function, p ssa.Value, depth int) bool {
	if depth > 3 || fn.Blocks == nil {
		return false
	}
	taint := map[ssa.Value]bool{p: true}
	changed := true
	for changed {
		changed = false
		for _, in := range ir.Instrs(fn) {
			v, ok := in.(ssa.Value)
			if !ok || taint[v] {
				continue
			}
			var ops []*ssa.Value
			hit := false
			for _, op := range in.Operands(ops) {
				if *op != nil && taint[*op] {
					hit = true
				}
			}
			if !hit {
				continue
			}
			switch x := in.(type) {
			case *ssa.Call:
				if _, isB := x.Call.Value.(*ssa.Builtin); isB {
					continue // len, cap ... lose the content
				}
				taint[v] = true
				changed = true
			case *ssa.Convert, *ssa.ChangeType, *ssa.Slice, *ssa.MakeInterface, *ssa.Phi, *ssa.Extract:
				taint[v] = true
				changed = true
			}
		}
	}
	for _, in := range ir.Instrs(fn) {
		call, ok := in.(*ssa.Call)
		if !ok {
			continue
		}
		f := call.Call.StaticCallee()
		if f == nil {
			continue
		}
		for i, a := range call.Call.Args {
			if !taint[a] {
				continue
			}
			switch f.String() {
			case "bytes.Equal", "crypto/hmac.Equal", "crypto/subtle.ConstantTimeCompare":
				return true
			}
			if f.Blocks != nil && i < len(f.Params) && flowsToComparator(f, f.Params[i], depth+1) {
				return true
			}
		}
	}
	return false
}

// ruleSessionDetailsOrder: the details recorded for a session (which eligibility lists, the Authorizer and the meta
// API read) are the client's HELLO details overwritten by what the authenticator put in WELCOME, overwritten by the
// router's session id — never the other way round.
func ruleSessionDetailsOrder(c *Ctx, r5 string) {
	ac := "router.(*router).AttachClient"
	hello := `call:wamp\.RecvTimeout\(%client, 5000000000\)#0\.\(\*wamp\.Hello\),ok`
	authc := `call:router\.\(\*realm\)\.authClient\(local:realm, call:wamp\.GlobalID\(\), %client, ` + hello + `#0\.Details\)`
	// session details: HELLO loop, then WELCOME loop, then session id
	helloCopy := `^mapupdate:makemap\(wamp\.Dict\)\[range\(` + hello + `#0\.Details\)#k\]=`
	welcomeCopy := `^mapupdate:makemap\(wamp\.Dict\)\[range\(` + authc + `#0\.Details\)#k\]=`
	sessID := `^mapupdate:makemap\(wamp\.Dict\)\["session"\]=call:wamp\.GlobalID\(\)$`
	c.Reach(r5, ac, "WELCOME details are copied after (over) HELLO details", ReachSpec{From: welcomeCopy, Target: helloCopy, Want: false})
	c.Reach(r5, ac, "session id written after both copies", ReachSpec{From: sessID, Target: helloCopy + `|` + welcomeCopy, Want: false})
}

// keyLeaves flattens phis and conversions to the values that can flow into v.
func keyLeaves(v ssa.Value, seen map[ssa.Value]bool, out *[]ssa.Value) {
	if seen[v] {
		return
	}
	seen[v] = true
	switch x := v.(type) {
	case *ssa.Phi:
		for _, e := range x.Edges {
			keyLeaves(e, seen, out)
		}
	case *ssa.Convert:
		keyLeaves(x.X, seen, out)
	case *ssa.MakeInterface:
		keyLeaves(x.X, seen, out)
	default:
		*out = append(*out, v)
	}
}
