package props

import (
	"nxcheck/internal/ir"
)

func init() {
	register(&Check{
		ID: "C13",
		Decides: "that CANCEL is handed to the dealer goroutine only with mode kill, killnowait, skip or (absent → killnowait) and that any other value is answered invalid_argument without hand-off; " +
			"that every effect of syncCancel is guarded by 'call pending', 'canceller owns the call' and 'not already cancelled'; that INTERRUPT is sent only for a mode other than skip to a callee with " +
			"call_canceling, carries the invocation's id, the mode and the reason; that the only path on which the caller is not answered at once is mode kill after a successfully sent INTERRUPT; that " +
			"the timeout is forwarded in INVOCATION.Details only for a callee with call_timeout whose registration asked for forward_timeout and only on the first chunk, and that otherwise a router timer " +
			"is started with exactly the option value in milliseconds, after the INVOCATION was sent, posting a killnowait cancel with wamp.error.timeout.",
		NotDecided: "that the timer fires 'exactly when' the timeout expires, races between an answer and the timer (both are serialised by the dealer goroutine, but which comes first is a schedule), the callee's reaction to INTERRUPT.",
		Run: runC13,
	})
}

func runC13(c *Ctx) {
	// R1 mode validation
	const r1 = "C13.R1 cancel mode validated before hand-off"
	cn := dlr + "cancel"
	mode := `call:wamp\.AsString\(%msg\.Options\["mode"\]\)#0`
	c.Guard(r1, cn, "hand-off", `^send:%d\.actionChan<-closure:router\.\(\*dealer\)\.cancel\$1$`, 1,
		clause("mode is kill, killnowait, skip or empty", T(`^\(`+mode+` == "killnowait"\)$`), T(`^\(`+mode+` == "kill"\)$`), T(`^\(`+mode+` == "skip"\)$`), T(`^\(`+mode+` == ""\)$`)))
	c.AllMatch(r1, cn, "mode variable assigned only from the option or the default", `^store:&local:mode=`, `^store:&local:mode=(`+mode+`|"killnowait")$`, 2)
	c.Guard(r1, cn, "default applies only to an absent mode", `^store:&local:mode="killnowait"$`, 1, clause("mode empty", T(`^\(`+mode+` == ""\)$`)))
	c.Has(r1, cn+"$1", "validated mode is the one used", `^call:router\.\(\*dealer\)\.syncCancel\(\^d, \^caller, \^msg, \^mode, "wamp\.error\.canceled", nil\)$`, 1)
	c.Fields(r1, cn, "invalid mode reply", "wamp.Error", nil, map[string]string{
		"Error": `^"wamp\.error\.invalid_argument"$`, "Request": `^%msg\.Request$`, "Type": `^call:wamp\.\(\*Cancel\)\.MessageType\(%msg\)$`}, 1)
	c.Reach(r1, cn, "invalid mode is answered and not handed off", ReachSpec{From: dTrySendTo + `%caller, new\(wamp\.Error\)\)$`, Target: `^send:`, Want: false})
	c.Reach(r1, cn, "every exit answered or handed off", ReachSpec{Stop: `^send:%d\.actionChan<-|` + dTrySendTo + `%caller, new\(wamp\.Error\)\)$`, Target: "EXIT", Want: false})
	c.R.Floor(r1, 8)

	const r2 = "C13.R2 syncCancel state machine"
	ruleCancelMachine(c, r2)
	ruleCalleeGone(c, r2)
	ruleProgressiveStickiness(c, r2) // a finished call is forgotten: a later CANCEL naming it has no effect
	c.R.Floor(r2, 20)

	const r3 = "C13.R3 timeout forwarding versus router timer"
	ruleTimeout(c, r3)
	ruleFeatureTable(c, r3) // call_canceling / call_timeout are what the callee announced under its callee role
	ruleTimerStoppedOnFinal(c, r3)
	ruleOneTimerPerCall(c, r3)
	c.R.Floor(r3, 18)
}

// ruleTimeout: forwarding of the call timeout versus the router-side timer.
func ruleTimeout(c *Ctx, r3 string) {
	sCall := dlr + "syncCall"
	tmo := `call:wamp\.AsInt64\(phi\(%d\.invocations\[%d\.invocationByCall\[` + dCallKey + `\],ok#0\]\|new\(router\.invocation\)\)\.options\["timeout"\]\)#0`
	positive := clause("timeout option positive", T(`^\(0 < `+tmo+`\)$`))
	calleeTO := clause("callee supports call_timeout", T(`^call:wamp\.\(\*Session\)\.HasFeature\(.*, "callee", "call_timeout"\)$`))
	fwd := clause("registration asked for forward_timeout", T(`^`+dReg+`\.forwardTimeout$`))
	first := clause("first chunk", F(`^%d\.invocationByCall\[`+dCallKey+`\],ok#1$`))
	c.Guard(r3, sCall, "timeout forwarded in INVOCATION.Details", `^mapupdate:makemap\(wamp\.Dict\)\["timeout"\]=`+tmo+`$`, 1, positive, calleeTO, fwd, first)
	goTimer := `^go:router\.\(\*dealer\)\.syncCall\$1\(\)$`
	c.Guard(r3, sCall, "router timer started", goTimer, 1,
		positive,
		clause("callee does not handle the timeout itself", F(`^call:wamp\.\(\*Session\)\.HasFeature\(.*, "callee", "call_timeout"\)$`), F(`^`+dReg+`\.forwardTimeout$`)),
		clause("INVOCATION was sent", T(`^\(select\{send:.*<-new\(wamp\.Invocation\);default\}#0 == 0\)$`)))
	c.Has(r3, sCall, "timer duration is the option value in milliseconds",
		`^call:context\.WithTimeout\(call:context\.Background\(\), \(phi\(0\|`+tmo+`\) \* 1000000\)\)$`, 1)
	c.Has(r3, sCall, "timer's cancel function stored on the invocation", `^store:phi\(.*\)\.&timerCancel=call:context\.WithTimeout\(.*\)#1$`, 1)
	// a call with a positive timeout and a callee that does not take it over always gets the timer
	c.Reach(r3, sCall, "router-handled timeout always arms the timer once the INVOCATION is sent", ReachSpec{
		FromEdge: &ir.Clause{Name: "INVOCATION sent", Edges: []ir.EdgeSpec{T(`^\(select\{send:.*<-new\(wamp\.Invocation\);default\}#0 == 0\)$`)}},
		Stop:     goTimer, Cut: []ir.Clause{clause("no router timeout", F(`^\(0 < (phi\(0\|`+tmo+`\)|`+tmo+`)\)$`)), clause("the call already has its timer (later message of a progressive call invocation)", F(`^\(phi\(.*\)\.timerCancel == nil\)$`))}, Target: "EXIT", Want: false})
	// forward_timeout is the registration's own option: fixed when the registration is created, a callee joining a
	// shared registration does not change what the earlier callees agreed to
	c.AllMatch(r3, dlr+"syncRegister", "forward_timeout recorded only when the registration is created", `^store:.*\.&forwardTimeout=`, `^store:new\(router\.registration\)\.&forwardTimeout=%forwardTimeout$`, 1)
	t2 := sCall + "$1$1"
	c.Has(r3, t2, "timer posts killnowait / wamp.error.timeout", `^call:router\.\(\*dealer\)\.syncCancel\(\^d, \^caller, new\(wamp\.Cancel\), "killnowait", "wamp\.error\.timeout", `, 1)
	c.Guard(r3, sCall+"$1", "timer acts only on expiry", `^send:\^d\.actionChan<-`, 1,
		clause("not cancelled", F(`^call:errors\.Is\(call:invoke:context\.Context\.Err\[\^timerCtx\]\(\), \*g:context\.Canceled\)$`)))
}

// ruleCancelMachine: guards and exits of dealer.syncCancel.
func ruleCancelMachine(c *Ctx, r2 string) {
	sc := dlr + "syncCancel"
	inv := `%d\.invocations\[%d\.invocationByCall\[` + dCallKey + `\],ok#0\],ok#0`
	pending := clause("call pending", T(`^%d\.calls\[`+dCallKey+`\],ok#1$`))
	owner := clause("canceller owns the call", T(`^\(%caller == %d\.calls\[`+dCallKey+`\],ok#0\)$`))
	fresh := clause("not already cancelled", F(`^`+inv+`\.canceled$`))
	intr := `^select\{send:call:invoke:wamp\.Peer\.Send\[` + inv + `\.callee\.Peer\]\(\)<-new\(wamp\.Interrupt\);default\}$`
	for _, e := range [][2]string{
		{"mark cancelled", `^store:` + inv + `\.&canceled=true$`},
		{"stop timer", `^call:dyn:` + inv + `\.timerCancel\(\)$`},
		{"INTERRUPT", intr},
		{"forget call", `^call:builtin:delete\(`},
		{"answer caller", dTrySendTo + `%caller, new\(wamp\.Error\)\)$`},
	} {
		c.Guard(r2, sc, e[0], e[1], 1, pending, owner, fresh)
	}
	c.Guard(r2, sc, "INTERRUPT", intr, 1,
		clause("mode is not skip", F(`^\(%mode == "skip"\)$`)),
		clause("callee supports call canceling", T(`^call:wamp\.\(\*Session\)\.HasFeature\(`+inv+`\.callee, "callee", "call_canceling"\)$`)))
	c.Fields(r2, sc, "INTERRUPT literal", "wamp.Interrupt", nil, map[string]string{
		"Request": `^%d\.invocationByCall\[` + dCallKey + `\],ok#0\.request$`, "Options": `^makemap\(wamp\.Dict\)$`}, 1)
	c.Has(r2, sc, "INTERRUPT carries the mode", `^mapupdate:makemap\(wamp\.Dict\)\["mode"\]=%mode$`, 1)
	c.Has(r2, sc, "INTERRUPT carries the reason", `^mapupdate:makemap\(wamp\.Dict\)\["reason"\]=%reason$`, 1)
	// the only silent exit after marking: kill mode with INTERRUPT delivered
	sent := clause("INTERRUPT was sent", T(`^\(select\{send:.*<-new\(wamp\.Interrupt\);default\}#0 == 0\)$`))
	kill := clause("mode kill", T(`^\(%mode == "kill"\)$`))
	c.Reach(r2, sc, "after marking, the caller is answered unless mode kill", ReachSpec{
		From: `^store:` + inv + `\.&canceled=true$`, Stop: dTrySendTo + `%caller, new\(wamp\.Error\)\)$`, Cut: []ir.Clause{kill}, Target: "EXIT", Want: false})
	c.Reach(r2, sc, "after marking, the caller is answered unless the INTERRUPT was sent", ReachSpec{
		From: `^store:` + inv + `\.&canceled=true$`, Stop: dTrySendTo + `%caller, new\(wamp\.Error\)\)$`, Cut: []ir.Clause{sent}, Target: "EXIT", Want: false})
	// and kill mode with a delivered INTERRUPT does wait (no reply, nothing forgotten)
	c.Reach(r2, sc, "kill mode waits for the callee once interrupted", ReachSpec{
		FromEdge: &kill, Target: dTrySendTo + `|^call:builtin:delete\(`, Want: false})
	c.Reach(r2, sc, "skip mode sends nothing to the callee", ReachSpec{FromEdge: &ir.Clause{Name: "mode skip", Edges: []ir.EdgeSpec{T(`^\(%mode == "skip"\)$`)}}, Target: intr, Want: false})
	c.Fields(r2, sc, "cancel ERROR", "wamp.Error", nil, map[string]string{"Type": `^48$`, "Request": `^%msg\.Request$`, "Error": `^%reason$`}, 1)
}
