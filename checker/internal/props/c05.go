package props

import (
	"fmt"
	"go/types"
	"strings"

	"golang.org/x/tools/go/ssa"

	"nxcheck/internal/ir"
)

func init() {
	register(&Check{
		ID: "C05",
		Decides: "that a session's peer is closed only after the leave action removed it from the realm's client table, the dealer and the broker (on realm shutdown the peer is instead handed to realm.close, which closes it after dealer and broker stopped); " +
			"that dealer and broker session removal visit every registration, invocation, call and subscription of the session and delete the corresponding entries on every path; that every per-session " +
			"or per-call map of dealer, broker and realm has a delete reachable from the respective removal entry (type-driven completeness); that a call is entered in calls, invocations and " +
			"invocationByCall together; that testaments are stored only for attached sessions, taken and deleted in the leave action, and published only outside shutdown/kill-all; that a progressive " +
			"result for a forgotten invocation is answered with INTERRUPT; that a session is entered as callee of a registration at most once, so that one removal leaves no stale entry.",
		NotDecided: "actual emptiness of the tables after arbitrary histories (a run-time end-state fact), growth through user-held references, ordering races between meta calls and departures beyond the guarded insert.",
		Run: runC05,
	})
}

func runC05(c *Ctx) {
	const r1 = "C05.R1 removed from realm, dealer and broker before the peer is closed"
	ruleSessionRemoval(c, r1)
	ruleShutdownFlag(c, r1)
	ruleEndSessionGoodbye(c, r1)
	c.R.Floor(r1, 15)

	const r2 = "C05.R2 call recorded in all three tables together"
	ruleCallRecording(c, r2)
	c.R.Floor(r2, 3)

	// R3: type-driven completeness of clean-up
	const r3 = "C05.R3 every per-session/per-call table is deleted from on session removal"
	exempt := map[string]string{
		"router.broker.eventHistoryStore": "keyed by subscriptions created from configuration; lives as long as the realm (C20 retention)",
		"router.realm.authenticators":     "configuration, immutable after newRealm",
		"router.realm.metaProcMap":        "meta procedure table, immutable after start-up",
	}
	owners := []struct{ typ, root string }{
		{"dealer", dlr + "syncRemoveSession"},
		{"broker", brk + "syncRemoveSession"},
		{"realm", rlm + "onLeave$1"},
	}
	nTables := 0
	for _, o := range owners {
		root := c.Fn(r3, o.root)
		if root == nil {
			continue
		}
		reach := ir.ReachableFrom(root)
		// delete(X.field, _) sites in reachable functions of package router
		deleted := map[string]bool{}
		for fn := range reach {
			if !strings.HasPrefix(ir.ShortName(fn), "router.") {
				continue
			}
			for _, in := range matches(fn, `^call:builtin:delete\(`) {
				call := in.(*ssa.Call)
				m := ir.Desc(call.Call.Args[0])
				// last path component is the field name
				if i := strings.LastIndex(m, "."); i >= 0 {
					deleted[strings.TrimPrefix(m[i+1:], "&")] = true
				}
			}
		}
		obj := c.P.ByRel["router"].Types.Scope().Lookup(o.typ)
		if obj == nil {
			c.R.Unknown(r3, "router."+o.typ, "type", "-", "owner type not found")
			continue
		}
		st, _ := obj.Type().Underlying().(*types.Struct)
		for i := 0; st != nil && i < st.NumFields(); i++ {
			f := st.Field(i)
			if _, isMap := f.Type().Underlying().(*types.Map); !isMap {
				continue
			}
			fname := ir.FieldName(obj.Type(), i)
			key := "router." + o.typ + "." + fname
			nTables++
			if why, ok := exempt[key]; ok {
				c.R.OK(r3, "router."+o.typ, "table "+fname+" exempt: "+why, c.P.Pos(f.Pos()), "")
				continue
			}
			c.R.Check(deleted[fname], r3, "router."+o.typ, "table "+fname+" has a delete reachable from "+o.root, c.P.Pos(f.Pos()),
				fmt.Sprintf("map field %s.%s (%s) is never deleted from in any function reachable from %s: entries for departed sessions would stay forever", o.typ, fname, ir.TypeStr(f.Type()), o.root))
		}
		// nested per-session sets: subscription.subscribers, registration.callees are edited
		if o.typ == "broker" {
			c.R.Check(deleted["subscribers"], r3, "router.subscription", "subscription.subscribers edited on removal", c.P.FuncPos(root), "no delete from subscription.subscribers reachable")
		}
	}
	c.R.Check(nTables >= 17, r3, "router", "all owner map fields enumerated", "-", fmt.Sprintf("only %d map fields found in dealer/broker/realm, 17 were confirmed by reading", nTables))
	c.R.Floor(r3, 17)

	// R4: dealer removal visits everything of the session
	const r4 = "C05.R4 dealer removal is complete"
	ruleDealerRemoval(c, r4)
	ruleCalleeGone(c, r4)
	c.R.Floor(r4, 12)

	// R5: broker removal is complete
	const r5 = "C05.R5 broker removal is complete"
	ruleBrokerRemoval(c, r5)
	c.R.Floor(r5, 4)

	const rdup = "C05.R7 a session is a callee of a registration at most once (no stale entry after it leaves)"
	ruleNoDuplicateCallee(c, rdup)
	c.R.Floor(rdup, 1)

	// R6: testaments
	const r6 = "C05.R6 testaments stored for attached sessions, consumed once"
	ta := rlm + "testamentAdd$1"
	c.Guard(r6, ta, "testament stored", `^mapupdate:\^r\.testaments\[\^caller\]=`, 1, clause("caller still attached", T(`^\^r\.clients\[\^caller\],ok#1$`)))
	ol1 := rlm + "onLeave$1"
	c.Has(r6, ol1, "bucket taken in the leave action", `^store:\^testaments=\^r\.testaments\[\^sess\.ID\],ok#0$`, 1)
	c.Has(r6, ol1, "presence recorded in the leave action", `^store:\^hasTstm=\^r\.testaments\[\^sess\.ID\],ok#1$`, 1)
	c.Reach(r6, ol1, "bucket deleted in the same action", ReachSpec{From: `^store:\^hasTstm=`, Stop: `^call:builtin:delete\(\^r\.testaments, \^sess\.ID\)$`,
		Cut: []ir.Clause{clause("no testaments", F(`^\^hasTstm$`))}, Target: "EXIT", Want: false})
	ol := rlm + "onLeave"
	// the publication of a scope is either the call of the local publishing closure with that scope or, when the
	// closure's body sits in onLeave itself (a helper inlined by the normalisation pass), the loop over that scope
	pubScope := func(scope string) string {
		return `^(call:router\.\(\*realm\)\.onLeave\$2\(&?local:testaments\.` + scope + `\)|call:builtin:len\(&?local:testaments\.` + scope + `\))$`
	}
	c.Guard(r6, ol, "testaments published", `^(call:router\.\(\*realm\)\.onLeave\$2\(|call:builtin:len\(&?local:testaments\.(detached|destroyed)\))`, 2,
		clause("session had testaments", T(`^local:hasTstm$`)), clause("not realm shutdown", F(`^%shutdown$`)), clause("not kill-all", F(`^%killAll$`)))
	c.Reach(r6, ol, "a normal departure with testaments publishes both scopes", ReachSpec{
		Stop: pubScope("detached"), Cut: []ir.Clause{clause("exempt", T(`^%shutdown$`), T(`^%killAll$`), F(`^local:hasTstm$`))}, Target: "EXIT", Want: false})
	c.Reach(r6, ol, "… destroyed scope too", ReachSpec{
		Stop: pubScope("destroyed"), Cut: []ir.Clause{clause("exempt", T(`^%shutdown$`), T(`^%killAll$`), F(`^local:hasTstm$`))}, Target: "EXIT", Want: false})
	if fn := c.P.Func(ol + "$2"); fn != nil {
		c.Has(r6, ol+"$2", "the publishing closure publishes the topic of each testament of the scope it is given", `^store:new\(wamp\.Publish\)\.&Topic=%testaments\.&\[.*\]\.topic$`, 1)
	} else {
		c.Has(r6, ol, "each testament of a scope is published under its own topic", `^store:new\(wamp\.Publish\)\.&Topic=&?local:testaments\.(detached|destroyed)\.&\[.*\]\.topic$`, 2)
	}
	ruleTestamentBuckets(c, r6)
	ruleDictWrites(c, r6) // a GOODBYE marked as kill-all is private: a shared one would make later kills skip the removal
	c.R.Floor(r6, 13)
}

// ruleCallRecording: a call is entered in calls, invocations and invocationByCall
// together, and only after the last refusal.
func ruleCallRecording(c *Ctx, r2 string) {
	sc := dlr + "syncCall"
	for _, t := range []string{"invocations", "invocationByCall"} {
		c.Reach(r2, sc, "after d.calls insert every exit passes d."+t+" insert", ReachSpec{From: `^mapupdate:%d\.calls\[`, Stop: `^mapupdate:%d\.` + t + `\[`, Target: "EXIT", Want: false})
	}
	// nothing can return between the three inserts: no answer to the caller (refusal) after recording
	c.Reach(r2, sc, "no refusal after the call was recorded", ReachSpec{From: `^mapupdate:%d\.calls\[`, Target: dTrySendTo + `%caller, `, Want: false})
}

// ruleBrokerRemoval: a departing session is taken out of every subscription it holds; emptied subscriptions go.
func ruleBrokerRemoval(c *Ctx, r5 string) {
	bs := brk + "syncRemoveSession"
	hasSet := clause("session has subscriptions", T(`^%b\.sessionSubIDSet\[%subscriber\],ok#1$`))
	c.Reach(r5, bs, "session's subscription set dropped", ReachSpec{FromEdge: &hasSet, Stop: `^call:builtin:delete\(%b\.sessionSubIDSet, %subscriber\)$`, Target: "EXIT", Want: false})
	subID := `range\(%b\.sessionSubIDSet\[%subscriber\],ok#0\)#k`
	subExists := clause("subscription exists", T(`^%b\.subscriptions\[`+subID+`\],ok#1$`))
	c.Reach(r5, bs, "session removed from every subscription it holds", ReachSpec{FromEdge: &subExists,
		Stop: `^call:builtin:delete\(%b\.subscriptions\[` + subID + `\],ok#0\.subscribers, %subscriber\)$`, Target: `^val:next:range|^return:|^call:`, Want: false})
	emptied := clause("last subscriber left and no history kept", F(`^call:router\.\(\*broker\)\.syncKeepsHistory\(%b, %b\.subscriptions\[`+subID+`\],ok#0\)$`), F(`^%b\.eventHistoryStore\[%b\.subscriptions\[`+subID+`\],ok#0\],ok#1$`))
	c.Reach(r5, bs, "emptied subscription deleted", ReachSpec{FromEdge: &emptied, Stop: `^call:router\.\(\*broker\)\.syncDelSubscription\(%b, %b\.subscriptions\[` + subID + `\],ok#0\)$`, Target: `^val:next:range|^return:`, Want: false})
	c.Guard(r5, bs, "subscription deleted only when empty", `^call:router\.\(\*broker\)\.syncDelSubscription\(`, 1,
		clause("no subscribers left", T(`^\(call:builtin:len\(%b\.subscriptions\[`+subID+`\],ok#0\.subscribers\) == 0\)$`)))
}

// ruleDealerRemoval: a departing session leaves every registration; its own pending calls are forgotten in all tables.
func ruleDealerRemoval(c *Ctx, r4 string) {
	rs := dlr + "syncRemoveSession"
	c.Reach(r4, rs, "callee's registration set dropped on every exit", ReachSpec{Stop: `^call:builtin:delete\(%d\.calleeRegIDSet, %sess\)$`, Target: "EXIT", Want: false})
	regLoop := clause("a registration of the session", T(`^next:range\(%d\.calleeRegIDSet\[%sess\]\)#more$`))
	c.Reach(r4, rs, "every registration of the session is left", ReachSpec{FromEdge: &regLoop,
		Stop: `^call:router\.\(\*dealer\)\.syncDelCalleeReg\(%d, %sess, range\(%d\.calleeRegIDSet\[%sess\]\)#k\)$`, Target: `^val:next:range|^return:`, Want: false})
	// own pending calls are abandoned: all three entries go
	own := clause("call made by the leaving session", T(`^\(%sess == range\(%d\.calls\)#v\)$`))
	c.Reach(r4, rs, "own call removed from d.calls", ReachSpec{FromEdge: &own, Stop: `^call:builtin:delete\(%d\.calls, range\(%d\.calls\)#k\)$`, Target: `^val:next:range|^return:`, Want: false})
	hasInv := clause("call has an invocation", T(`^%d\.invocationByCall\[range\(%d\.calls\)#k\],ok#1$`))
	for _, del := range []string{
		`^call:builtin:delete\(%d\.invocationByCall, range\(%d\.calls\)#k\)$`,
		`^call:builtin:delete\(%d\.invocations, %d\.invocationByCall\[range\(%d\.calls\)#k\],ok#0\)$`,
	} {
		c.Reach(r4, rs, "own call's invocation forgotten: "+del, ReachSpec{FromEdge: &hasInv, Stop: del, Target: `^val:next:range|^return:`, Want: false})
	}
	// progressive results of an abandoned call are interrupted
	sy := dlr + "syncYield"
	c.Reach(r4, sy, "progressive result for a forgotten invocation is answered with INTERRUPT", ReachSpec{
		Stop: `^select\{send:call:invoke:wamp\.Peer\.Send\[%callee\.Peer\]\(\)<-new\(wamp\.Interrupt\);default\}$`,
		Cut: []ir.Clause{clause("invocation known", T(`^%d\.invocations\[`+dInvkKey+`\],ok#1$`)), clause("final result", F(`^%progress$`))}, Target: "EXIT", Want: false})
	c.Fields(r4, sy, "INTERRUPT literal", "wamp.Interrupt", nil, map[string]string{"Request": `^%msg\.Request$`}, 1)
}
