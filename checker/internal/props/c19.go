package props

import (
	"fmt"
	"strconv"
	"strings"

	"golang.org/x/tools/go/ssa"

	"nxcheck/internal/ir"
	"nxcheck/internal/regeq"
)

func init() {
	register(&Check{
		ID: "C19",
		Decides: "that each of the six URI patterns accepts exactly the language the rule prescribes for its purpose — decided by compiling the pattern literals found in the package initialiser and comparing them, by product " +
			"construction, with reference expressions written from the rule (loose: no Unicode white space, '.' or '#' in a component; strict: [0-9a-z_]; exact: all components non-empty; prefix: last may be empty; wildcard: any may be empty); " +
			"any language-preserving rewrite passes, any change of the accepted set fails with a shortest distinguishing string; that ValidURI dispatches (strict, match) to the right pattern on every path; that PrefixMatch is " +
			"strings.HasPrefix(uri, prefix) and WildcardMatch compares component counts and every non-empty pattern component from index 0; that AsID accepts exactly 0 < v <= 2^53, IDGen.Next wraps only above 2^53 to 1, " +
			"GlobalID is 1 + a value below 2^53, and IsNewRecvID rejects 0 and values above 2^53 before anything else and has the prescribed window expression.",
		NotDecided: "the arithmetic of the wrap-around window over all values, the increment sequence as a run-time fact, strings.Split/HasPrefix and regexp themselves (trusted base). If ValidURI stops being a regular-expression dispatch the rule reports 'undecided'.",
		Run: runC19,
	})
}

const wsClass = `\x{9}-\x{D}\x{20}\x{85}\x{A0}\x{1680}\x{2000}-\x{200A}\x{2028}\x{2029}\x{202F}\x{205F}\x{3000}`

func runC19(c *Ctx) {
	const r1 = "C19.R1 URI patterns accept exactly the prescribed languages"
	ruleURIPatterns(c, r1)
	c.R.Floor(r1, 13)

	const r4 = "C19.R4 the URI rule configured for the realm reaches broker and dealer"
	ruleRealmWiring(c, r4)
	c.R.Floor(r4, 4)

	const r2 = "C19.R2 prefix and wildcard matching"
	ruleMatchFunctions(c, r2)
	c.R.Floor(r2, 6)

	const r3 = "C19.R3 id range and generators"
	c.Guard(r3, "wamp.AsID", "id accepted", `^return:conv:wamp\.ID\(call:wamp\.AsInt64\(%v\)#0\), true$`, 1,
		clause("numeric", T(`^call:wamp\.AsInt64\(%v\)#1$`)),
		clause("greater than 0", T(`^\(0 < call:wamp\.AsInt64\(%v\)#0\)$`)),
		clause("at most 2^53", F(`^\(9007199254740992 < call:wamp\.AsInt64\(%v\)#0\)$`)))
	if fn := c.Fn(r3, "wamp.AsID"); fn != nil {
		n := 0
		for _, ex := range ir.Exits(fn, false) {
			if strings.HasSuffix(ir.InstrDesc(ex), ", true") {
				n++
			}
		}
		c.R.Check(n == 1, r3, "wamp.AsID", "single accepting return", c.P.FuncPos(fn), fmt.Sprintf("%d accepting returns", n))
	}
	nx := "wamp.(*IDGen).Next"
	c.Guard(r3, nx, "wrap to 1", `^store:%g\.&next=1$`, 1, clause("counter above 2^53", T(`^\(9007199254740992 < %g\.next\)$`)))
	c.Has(r3, nx, "increment by one", `^store:%g\.&next=\(%g\.next \+ 1\)$`, 1)
	c.Before(r3, nx, "increment before the wrap test", `^store:%g\.&next=\(%g\.next \+ 1\)$`, `^store:%g\.&next=1$`)
	c.AllMatch(r3, nx, "counter only incremented or reset to 1", `^store:%g\.&next=`, `^store:%g\.&next=(\(%g\.next \+ 1\)|1)$`, 2)
	c.Has(r3, nx, "returns the counter", `^return:%g\.next$`, 1)
	c.Has(r3, "wamp.(*SyncIDGen).Next", "synchronised generator delegates under its lock", `^call:wamp\.\(\*IDGen\)\.Next\(%g\.&IDGen\)$`, 1)
	c.Before(r3, "wamp.(*SyncIDGen).Next", "lock before next", `^call:\(\*sync\.Mutex\)\.Lock\(%g\.&lock\)$`, `^call:wamp\.\(\*IDGen\)\.Next\(`)
	// (the bounded random draw is a helper over crypto/rand.Int, or that call itself)
	c.Has(r3, "wamp.GlobalID", "random id in [1, 2^53]", `^return:\(conv:uint64\((call:wamp\.secureInt63n\(9007199254740992\)|call:\(\*math/big\.Int\)\.Int64\(call:crypto/rand\.Int\(\*g:crypto/rand\.Reader, call:math/big\.NewInt\(9007199254740992\)\)#0\))\) \+ 1\)$`, 1)
	in := "wamp.(*Session).IsNewRecvID"
	c.Guard(r3, in, "any accepting answer", `^return:true$|^return:\(\(9007199254740992 - \(%s\.lastRecvID - %id\)\) < 500\)$`, 3,
		clause("id is not 0", F(`^\(%id == 0\)$`)), clause("id at most 2^53", F(`^\(9007199254740992 < %id\)$`)))
	c.Has(r3, in, "wrap-around window expression", `^(return|val):\(\(9007199254740992 - \(%s\.lastRecvID - %id\)\) < 500\)$`, 1)
	c.Guard(r3, in, "window applies only to smaller ids", `^return:\(\(9007199254740992 - `, 1, clause("not larger than last", F(`^\(%s\.lastRecvID < %id\)$`)), clause("not equal to last", F(`^\(%id == %s\.lastRecvID\)$`)),
		clause("some id seen before", F(`^\(%s\.lastRecvID == 0\)$`)))
	// session id generator is the synchronised one
	if sp := c.P.ByRel["wamp"]; sp != nil {
		obj := sp.Types.Scope().Lookup("Session")
		ok := false
		if obj != nil {
			if st, isSt := obj.Type().Underlying().(interface{ NumFields() int }); isSt {
				_ = st
			}
			ok = strings.Contains(obj.Type().Underlying().String(), "IDGen github.com/gammazero/nexus/v3/wamp.SyncIDGen")
		}
		c.R.Check(ok, r3, "wamp.Session", "session request ids come from the synchronised generator", "-", "Session.IDGen is not a SyncIDGen: concurrent API calls can draw the same request id")
	}
	ruleLastRecvID(c, r3)
	c.R.Floor(r3, 19)
}

// ruleMatchFunctions: PrefixMatch is strings.HasPrefix; WildcardMatch compares component counts and every non-empty
// pattern component for equality, from the first component on.
func ruleMatchFunctions(c *Ctx, r2 string) {
	c.Has(r2, "wamp.(URI).PrefixMatch", "topic starts with the prefix", `^return:call:strings\.HasPrefix\(%u, %prefix\)$`, 1)
	wm := "wamp.(URI).WildcardMatch"
	up, wp := `call:strings\.Split\(%u, "\."\)`, `call:strings\.Split\(%wildcard, "\."\)`
	idx := `\(phi\(\(phi↺ \+ 1\)\|-1\) \+ 1\)`
	c.Guard(r2, wm, "match", `^return:true$`, 1,
		clause("same number of components", T(`^\(call:builtin:len\(`+up+`\) == call:builtin:len\(`+wp+`\)\)$`)),
		clause("every pattern component was examined", F(`^\(`+idx+` < call:builtin:len\(`+wp+`\)\)$`)))
	mismatch := clause("a non-empty pattern component differs", F(`^\(`+up+`\[`+idx+`\] == `+wp+`\[`+idx+`\]\)$`))
	c.Reach(r2, wm, "a differing non-empty component rejects", ReachSpec{FromEdge: &mismatch, Target: `^return:true$|^val:phi`, Want: false})
	c.Guard(r2, wm, "component comparison", `^val:\((`+up+`\[`+idx+`\] != `+wp+`\[`+idx+`\]|`+wp+`\[`+idx+`\] != `+up+`\[`+idx+`\])\)$`, 1, clause("pattern component is not empty", F(`^\(`+wp+`\[`+idx+`\] == ""\)$`)))
	c.Has(r2, wm, "loop covers the components from the first one", `^val:\(`+idx+` < call:builtin:len\(`+wp+`\)\)$`, 1)
}

// ruleURIPatterns: the six URI patterns accept exactly the prescribed languages and ValidURI dispatches to the one
// selected by (strict, match policy).
func ruleURIPatterns(c *Ctx, r1 string) {
	loose := `[^` + wsClass + `\.#]`
	strict := `[0-9a-z_]`
	ref := map[string]string{
		"looseURINonEmpty":   `^` + loose + `+(\.` + loose + `+)*$`,
		"looseURILastEmpty":  `^(` + loose + `+\.)*` + loose + `*$`,
		"looseURIEmpty":      `^` + loose + `*(\.` + loose + `*)*$`,
		"strictURINonEmpty":  `^` + strict + `+(\.` + strict + `+)*$`,
		"strictURILastEmpty": `^(` + strict + `+\.)*` + strict + `*$`,
		"strictURIEmpty":     `^` + strict + `*(\.` + strict + `*)*$`,
	}
	initFn := c.Fn(r1, "wamp.init")
	actual := map[string]string{}
	pos := map[string]string{}
	if initFn != nil {
		for _, in := range ir.Instrs(initFn) {
			st, ok := in.(*ssa.Store)
			if !ok {
				continue
			}
			g, ok := st.Addr.(*ssa.Global)
			if !ok {
				continue
			}
			call, ok := st.Val.(*ssa.Call)
			if !ok || call.Call.StaticCallee() == nil || call.Call.StaticCallee().String() != "regexp.MustCompile" {
				continue
			}
			k, ok := call.Call.Args[0].(*ssa.Const)
			if !ok {
				c.R.Unknown(r1, "wamp."+g.Name(), "pattern is a constant", c.pos(in), "pattern of "+g.Name()+" is not a string constant")
				continue
			}
			s, err := strconv.Unquote(ir.ConstStr(k))
			if err != nil {
				continue
			}
			actual[g.Name()] = s
			pos[g.Name()] = c.pos(in)
		}
	}
	for _, name := range sortedKeys(ref) {
		pat, ok := actual[name]
		if !ok {
			c.R.Unknown(r1, "wamp."+name, "pattern found", "-", "no regexp.MustCompile(<constant>) initialises "+name+": the URI check is no longer a regular-expression dispatch")
			continue
		}
		eq, w, inA, err := regeq.Equivalent(pat, ref[name])
		if err != nil {
			c.R.Unknown(r1, "wamp."+name, "language comparable", pos[name], err.Error())
			continue
		}
		detail := ""
		if !eq {
			if inA {
				detail = fmt.Sprintf("pattern %q accepts %q, which the rule forbids", pat, w)
			} else {
				detail = fmt.Sprintf("pattern %q rejects %q, which the rule allows", pat, w)
			}
		}
		c.R.Check(eq, r1, "wamp."+name, "accepts exactly the language of the rule", pos[name], detail)
	}
	// dispatch
	vu := "wamp.(URI).ValidURI"
	ms := func(g string) string { return `^return:call:\(\*regexp\.Regexp\)\.MatchString\(\*g:wamp\.` + g + `, %u\)$` }
	isW, isP := `^\(%match == "wildcard"\)$`, `^\(%match == "prefix"\)$`
	disp := []struct {
		g               string
		strict, wc, pfx int // 1 true, 0 false, -1 n/a
	}{
		{"strictURIEmpty", 1, 1, -1}, {"strictURILastEmpty", 1, 0, 1}, {"strictURINonEmpty", 1, 0, 0},
		{"looseURIEmpty", 0, 1, -1}, {"looseURILastEmpty", 0, 0, 1}, {"looseURINonEmpty", 0, 0, 0},
	}
	for _, d := range disp {
		var cls []ir.Clause
		cls = append(cls, clause("strict="+fmt.Sprint(d.strict == 1), ir.E(d.strict == 1, `^%strict$`)))
		if d.pfx != 1 { // match == prefix already excludes wildcard (one value), whichever is tested first
			cls = append(cls, clause("wildcard="+fmt.Sprint(d.wc == 1), ir.E(d.wc == 1, isW)))
		}
		if d.pfx >= 0 {
			cls = append(cls, clause("prefix="+fmt.Sprint(d.pfx == 1), ir.E(d.pfx == 1, isP)))
		}
		c.Guard(r1, vu, "dispatch to "+d.g, ms(d.g), 1, cls...)
	}
	if fn := c.Fn(r1, vu); fn != nil {
		n := len(ir.Exits(fn, false))
		c.R.Check(n == 6, r1, vu, "exactly six outcomes, each a pattern match", c.P.FuncPos(fn), fmt.Sprintf("found %d returns", n))
	}
}
