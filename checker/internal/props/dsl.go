package props

import (
	"fmt"
	"regexp"
	"sort"
	"strings"

	"golang.org/x/tools/go/ssa"

	"nxcheck/internal/ir"
)

// ---- small helpers ---------------------------------------------------------

func re(s string) *regexp.Regexp { return regexp.MustCompile(s) }

// q quotes a literal for use inside a regexp.
func q(s string) string { return regexp.QuoteMeta(s) }

// T / F build edge specs: the edge on which a predicate matching the regexp
// is true / false.
func T(pred string) ir.EdgeSpec { return ir.E(true, pred) }
func F(pred string) ir.EdgeSpec { return ir.E(false, pred) }

func clause(name string, edges ...ir.EdgeSpec) ir.Clause {
	return ir.Clause{Name: name, Edges: edges}
}

// Fn resolves a function by short name; a missing anchor is an undecided
// obligation (the check must not pass when it cannot see the construct).
func (c *Ctx) Fn(rule, name string) *ssa.Function {
	fn := c.P.Func(name)
	if fn == nil {
		c.R.Unknown(rule, name, "anchor function", "-", "anchored function not found in the loaded program (renamed or removed?)")
	}
	return fn
}

// Matches returns the instructions of fn matching the effect regexp.
func matches(fn *ssa.Function, effRe string) []ssa.Instruction {
	return ir.FindInstrs(fn, re(effRe))
}

func (c *Ctx) pos(in ssa.Instruction) string {
	if in.Pos().IsValid() {
		return c.P.Pos(in.Pos())
	}
	// fall back to the nearest positioned instruction in the block
	for _, x := range in.Block().Instrs {
		if x.Pos().IsValid() {
			return c.P.Pos(x.Pos())
		}
	}
	return c.P.FuncPos(in.Parent())
}

// Guard: every instruction of fn matching effRe (at least min of them) must be
// guarded by every clause: each path from the function entry to the effect
// crosses an edge of the clause (edge cut).
func (c *Ctx) Guard(rule, fnName, effLabel, effRe string, min int, clauses ...ir.Clause) {
	fn := c.Fn(rule, fnName)
	if fn == nil {
		return
	}
	effs := matches(fn, effRe)
	if len(effs) < min {
		// the value may be selected by a phi (results of an inlined helper, a variable assigned in every arm and
		// stored once): the effect "store of alternative i" happens on the paths through the phi's i-th predecessor
		if alts := phiStoreAlternatives(fn, re(effRe)); len(alts) >= min {
			for i, a := range alts {
				c.guardPhiAlt(rule, fnName, fn, fmt.Sprintf("%s[%d]", effLabel, i), a, clauses...)
			}
			return
		}
	}
	if len(effs) < min {
		c.R.Unknown(rule, fnName, "effect "+effLabel, c.P.FuncPos(fn),
			fmt.Sprintf("expected at least %d instruction(s) matching /%s/, found %d: the anchored effect is not recognisable", min, effRe, len(effs)))
		return
	}
	for i, e := range effs {
		c.guardOne(rule, fnName, fn, fmt.Sprintf("%s[%d]", effLabel, i), e, clauses...)
	}
}

func (c *Ctx) guardOne(rule, fnName string, fn *ssa.Function, label string, e ssa.Instruction, clauses ...ir.Clause) {
	free := (&ir.Walk{}).From(ir.Entry(fn), 0)
	if !free.Reached[e] {
		c.R.Unknown(rule, fnName, label+" reachable", c.pos(e), "effect instruction is not reachable from the function entry")
		return
	}
	for _, cl := range clauses {
		ok, w := ir.GuardedBy(fn, e, cl)
		construct := label + " guarded by {" + cl.Name + "}"
		if ok && w.CutCount > 0 {
			c.R.OK(rule, fnName, construct, c.pos(e), "")
			continue
		}
		detail := fmt.Sprintf("effect %q is reachable from the entry of %s without crossing an edge of guard {%s} (edges: %s); witness path: %s",
			ir.InstrDesc(e), fnName, cl.Name, edgeLabels(cl), strings.Join(w.PathTo(c.P, e), " -> "))
		c.R.Bad(rule, fnName, construct, c.pos(e), detail)
	}
}

// phiAlt is one alternative of a phi stored by a Store instruction: the store behaves like "store addr=val" on the
// paths that enter the phi's block from pred.
type phiAlt struct {
	store *ssa.Store
	val   ssa.Value
	pred  *ssa.BasicBlock // predecessor that selects the alternative
	succ  int             // index of the phi's block among pred's successors
	at    ssa.Instruction // the store or return
}

func phiStoreAlternatives(fn *ssa.Function, r *regexp.Regexp) []phiAlt {
	var out []phiAlt
	for _, in := range ir.Instrs(fn) {
		// a return whose results are selected by phis of one block (results of an inlined helper): "return of the
		// i-th alternatives" happens on the paths through that block's i-th predecessor
		if ret, ok := in.(*ssa.Return); ok {
			var blk *ssa.BasicBlock
			same := len(ret.Results) > 0
			for _, res := range ret.Results {
				if ph, ok := res.(*ssa.Phi); ok {
					if blk == nil {
						blk = ph.Block()
					} else if blk != ph.Block() {
						same = false
					}
				}
			}
			if blk != nil && same {
				for i, pred := range blk.Preds {
					var ds []string
					for _, res := range ret.Results {
						if ph, ok := res.(*ssa.Phi); ok {
							ds = append(ds, ir.Desc(ph.Edges[i]))
						} else {
							ds = append(ds, ir.Desc(res))
						}
					}
					if !r.MatchString("return:" + strings.Join(ds, ", ")) {
						continue
					}
					si := 0
					for k, s := range pred.Succs {
						if s == blk {
							si = k
						}
					}
					out = append(out, phiAlt{nil, ret.Results[0], pred, si, ret})
				}
			}
			continue
		}
		st, ok := in.(*ssa.Store)
		if !ok {
			continue
		}
		ph, ok := st.Val.(*ssa.Phi)
		if !ok {
			continue
		}
		var walk func(ph *ssa.Phi, depth int)
		walk = func(ph *ssa.Phi, depth int) {
			for i, e := range ph.Edges {
				if q, ok := e.(*ssa.Phi); ok && depth < 4 {
					walk(q, depth+1)
					continue
				}
				if !r.MatchString("store:" + ir.Desc(st.Addr) + "=" + ir.Desc(e)) {
					continue
				}
				pred := ph.Block().Preds[i]
				si := 0
				for k, s := range pred.Succs {
					if s == ph.Block() {
						si = k
					}
				}
				out = append(out, phiAlt{st, e, pred, si, st})
			}
		}
		walk(ph, 0)
	}
	return out
}

func (c *Ctx) guardPhiAlt(rule, fnName string, fn *ssa.Function, label string, a phiAlt, clauses ...ir.Clause) {
	last := a.pred.Instrs[len(a.pred.Instrs)-1]
	for _, cl := range clauses {
		construct := label + " guarded by {" + cl.Name + "}"
		if cl.MatchEdge(a.pred, a.succ) {
			c.R.OK(rule, fnName, construct, c.pos(a.at), "")
			continue
		}
		ok, w := ir.GuardedBy(fn, last, cl)
		if ok && w.CutCount > 0 {
			c.R.OK(rule, fnName, construct, c.pos(a.at), "")
			continue
		}
		c.R.Bad(rule, fnName, construct, c.pos(a.at), fmt.Sprintf("the value %q can be stored by %q on a path that does not cross an edge of guard {%s} (edges: %s); witness path: %s",
			ir.Desc(a.val), ir.InstrDesc(a.at), cl.Name, edgeLabels(cl), strings.Join(w.PathTo(c.P, last), " -> ")))
	}
}

func edgeLabels(cl ir.Clause) string {
	var s []string
	for _, e := range cl.Edges {
		s = append(s, e.Label)
	}
	return strings.Join(s, " | ")
}

// NotGuarded: the effect must stay reachable when the clause's edges are cut
// (forbidden guard).
func (c *Ctx) NotGuarded(rule, fnName, effLabel, effRe string, cl ir.Clause) {
	fn := c.Fn(rule, fnName)
	if fn == nil {
		return
	}
	effs := matches(fn, effRe)
	if len(effs) == 0 {
		c.R.Unknown(rule, fnName, "effect "+effLabel, c.P.FuncPos(fn), "no instruction matches /"+effRe+"/")
		return
	}
	for i, e := range effs {
		ok, _ := ir.GuardedBy(fn, e, cl)
		construct := fmt.Sprintf("%s[%d] not cut off by {%s}", effLabel, i, cl.Name)
		c.R.Check(!ok, rule, fnName, construct, c.pos(e),
			fmt.Sprintf("effect %q is only reachable through an edge of the forbidden guard {%s}", ir.InstrDesc(e), cl.Name))
	}
}

// MustPass: every path from each instruction matching startRe (or from the
// entry when startRe is "") to a return of fn executes an instruction
// matching relRe. A `defer` of a matching call counts.
func (c *Ctx) MustPass(rule, fnName, label, startRe, relRe string) {
	fn := c.Fn(rule, fnName)
	if fn == nil {
		return
	}
	rr := re(relRe)
	rel := func(in ssa.Instruction) bool { return rr.MatchString(ir.InstrDesc(in)) }
	var starts []ssa.Instruction
	if startRe == "" {
		starts = []ssa.Instruction{nil}
	} else {
		starts = matches(fn, startRe)
		if len(starts) == 0 {
			c.R.Unknown(rule, fnName, label+" start", c.P.FuncPos(fn), "no instruction matches start /"+startRe+"/")
			return
		}
	}
	for i, st := range starts {
		ok, ex, w := ir.MustPass(fn, st, rel)
		construct := fmt.Sprintf("%s[%d] every exit passes /%s/", label, i, relRe)
		pos := c.P.FuncPos(fn)
		if st != nil {
			pos = c.pos(st)
		}
		if ok {
			c.R.OK(rule, fnName, construct, pos, "")
		} else {
			c.R.Bad(rule, fnName, construct, pos,
				fmt.Sprintf("exit at %s is reachable without executing any instruction matching /%s/; path: %s", c.pos(ex), relRe, strings.Join(w.PathTo(c.P, ex), " -> ")))
		}
	}
}

// Before: every instruction matching laterRe is only reachable after an
// instruction matching earlierRe executed (earlier dominates later at
// instruction level): walking from entry and stopping at earlier must not
// reach later.
func (c *Ctx) Before(rule, fnName, label, earlierRe, laterRe string) {
	fn := c.Fn(rule, fnName)
	if fn == nil {
		return
	}
	er := re(earlierRe)
	laters := matches(fn, laterRe)
	if len(laters) == 0 || len(matches(fn, earlierRe)) == 0 {
		c.R.Unknown(rule, fnName, label, c.P.FuncPos(fn), fmt.Sprintf("ordering anchors not found: /%s/ before /%s/", earlierRe, laterRe))
		return
	}
	w := (&ir.Walk{Stop: func(in ssa.Instruction) bool { return er.MatchString(ir.InstrDesc(in)) }}).From(ir.Entry(fn), 0)
	for i, l := range laters {
		construct := fmt.Sprintf("%s[%d]: /%s/ precedes /%s/", label, i, earlierRe, laterRe)
		if w.Reached[l] && !er.MatchString(ir.InstrDesc(l)) {
			c.R.Bad(rule, fnName, construct, c.pos(l), fmt.Sprintf("%q reachable without first executing /%s/; path: %s", ir.InstrDesc(l), earlierRe, strings.Join(w.PathTo(c.P, l), " -> ")))
		} else {
			c.R.OK(rule, fnName, construct, c.pos(l), "")
		}
	}
}

// NoneAfter: no instruction matching laterRe is reachable after an
// instruction matching earlierRe.
func (c *Ctx) NoneAfter(rule, fnName, label, earlierRe, laterRe string) {
	fn := c.Fn(rule, fnName)
	if fn == nil {
		return
	}
	starts := matches(fn, earlierRe)
	if len(starts) == 0 {
		c.R.Unknown(rule, fnName, label, c.P.FuncPos(fn), "no instruction matches /"+earlierRe+"/")
		return
	}
	lr := re(laterRe)
	for i, st := range starts {
		w := (&ir.Walk{}).From(st.Block(), ir.IndexOf(st)+1)
		bad := ""
		for in := range w.Reached {
			if lr.MatchString(ir.InstrDesc(in)) {
				bad = ir.InstrDesc(in) + " at " + c.pos(in)
				break
			}
		}
		construct := fmt.Sprintf("%s[%d]: nothing matching /%s/ after /%s/", label, i, laterRe, earlierRe)
		c.R.Check(bad == "", rule, fnName, construct, c.pos(st), "reachable afterwards: "+bad)
	}
}

// Has: fn contains at least min instructions matching the regexp.
func (c *Ctx) Has(rule, fnName, label, instrRe string, min int) bool {
	fn := c.Fn(rule, fnName)
	if fn == nil {
		return false
	}
	n := len(matches(fn, instrRe))
	c.R.Check(n >= min, rule, fnName, fmt.Sprintf("%s: >=%d × /%s/", label, min, instrRe), c.P.FuncPos(fn),
		fmt.Sprintf("found %d instruction(s) matching /%s/, need %d", n, instrRe, min))
	return n >= min
}

// HasNot: fn contains no instruction matching the regexp.
func (c *Ctx) HasNot(rule, fnName, label, instrRe string) {
	fn := c.Fn(rule, fnName)
	if fn == nil {
		return
	}
	ms := matches(fn, instrRe)
	pos := c.P.FuncPos(fn)
	d := ""
	if len(ms) > 0 {
		pos = c.pos(ms[0])
		d = ir.InstrDesc(ms[0])
	}
	c.R.Check(len(ms) == 0, rule, fnName, fmt.Sprintf("%s: no /%s/", label, instrRe), pos, "found: "+d)
}

// CallSites returns every call/go/defer instruction in nexus library code
// whose callee name matches calleeRe (static callee, interface method, or a
// closure), with the enclosing function.
type CallSite struct {
	In     ssa.Instruction
	Caller *ssa.Function
	Callee string
}

func libFunc(name string) bool {
	return !strings.HasPrefix(name, "examples") && !strings.HasPrefix(name, "aat") && !strings.HasPrefix(name, "nexusd") && !strings.HasPrefix(name, "test.")
}

func (c *Ctx) CallSites(calleeRe string) []CallSite {
	r := re(calleeRe)
	var out []CallSite
	for _, fn := range c.P.NexusFuncs {
		if !libFunc(ir.ShortName(fn)) {
			continue
		}
		for _, in := range ir.Instrs(fn) {
			var cc *ssa.CallCommon
			switch x := in.(type) {
			case *ssa.Call:
				cc = &x.Call
			case *ssa.Go:
				cc = &x.Call
			case *ssa.Defer:
				cc = &x.Call
			default:
				continue
			}
			name := ir.CalleeOf(cc)
			if r.MatchString(name) {
				out = append(out, CallSite{In: in, Caller: fn, Callee: name})
			}
		}
	}
	return out
}

// OnlyCalledFrom: every call site of callees matching calleeRe lies in a
// function whose short name matches allowedRe. Also flags uses of the callee
// as a value (method value / function value) outside allowed functions.
func (c *Ctx) OnlyCalledFrom(rule, label, calleeRe, allowedRe string, min int) {
	sites := c.CallSites(calleeRe)
	ar := re(allowedRe)
	if len(sites) < min {
		c.R.Unknown(rule, label, "call sites of /"+calleeRe+"/", "-", fmt.Sprintf("found %d call sites, expected at least %d", len(sites), min))
		return
	}
	cnt := map[string]int{}
	for _, s := range sites {
		caller := ir.ShortName(s.Caller)
		cnt[caller+"→"+s.Callee]++
		construct := fmt.Sprintf("%s: call of %s in %s #%d", label, s.Callee, caller, cnt[caller+"→"+s.Callee])
		c.R.Check(ar.MatchString(caller), rule, caller, construct, c.pos(s.In),
			fmt.Sprintf("%s is called from %s, which is outside the allowed set /%s/", s.Callee, caller, allowedRe))
	}
}

// FuncValueUses lists places where a function matching re is used as a value
// (not called): method values, callbacks.
func (c *Ctx) FuncValueUses(nameRe string) []CallSite {
	r := re(nameRe)
	var out []CallSite
	for _, fn := range c.P.NexusFuncs {
		if !libFunc(ir.ShortName(fn)) {
			continue
		}
		for _, in := range ir.Instrs(fn) {
			if _, isMC := in.(*ssa.MakeClosure); isMC {
				continue // creating a closure is not a use of a named function as a value
			}
			var ops []*ssa.Value
			ops = in.Operands(ops)
			for oi, op := range ops {
				if *op == nil {
					continue
				}
				var f *ssa.Function
				switch x := (*op).(type) {
				case *ssa.Function:
					f = x
				case *ssa.MakeClosure:
					// bound method closures: Fn is a synthetic wrapper "$bound"
					if ff, ok := x.Fn.(*ssa.Function); ok && ff.Synthetic != "" {
						f = ff
					}
				}
				if f == nil {
					continue
				}
				// skip callee position of calls
				if ci, ok := in.(ssa.CallInstruction); ok && oi == 0 && !ci.Common().IsInvoke() {
					if ci.Common().Value == *op {
						continue
					}
				}
				name := ir.CalleeName(f)
				if f.Synthetic != "" {
					name = f.String()
				}
				if r.MatchString(name) {
					out = append(out, CallSite{In: in, Caller: fn, Callee: name})
				}
			}
		}
	}
	return out
}

// sortedKeys helper.
func sortedKeys[V any](m map[string]V) []string {
	var ks []string
	for k := range m {
		ks = append(ks, k)
	}
	sort.Strings(ks)
	return ks
}

// Fields: for every allocation of struct type typ in fn (optionally only
// those for which sel returns true given its field descriptors), every store
// to each listed field must match the wanted regexp, and each listed field
// must be stored at least once. This is the provenance rule for message
// literals.
func (c *Ctx) Fields(rule, fnName, label, typ string, sel func(f map[string][]string) bool, wants map[string]string, min int) {
	fn := c.Fn(rule, fnName)
	if fn == nil {
		return
	}
	n := 0
	for _, in := range ir.Instrs(fn) {
		a, ok := in.(*ssa.Alloc)
		if !ok || ir.TypeStr(a.Type()) != "*"+typ {
			continue
		}
		fields := map[string][]string{}
		for f, vals := range ir.LiteralFields(a) {
			for _, v := range vals {
				fields[f] = append(fields[f], ir.Desc(v))
			}
		}
		if sel != nil && !sel(fields) {
			continue
		}
		n++
		for _, f := range sortedKeys(wants) {
			want := re(wants[f])
			construct := fmt.Sprintf("%s #%d: %s.%s matches /%s/", label, n, typ, f, wants[f])
			vals := fields[f]
			if len(vals) == 0 {
				c.R.Bad(rule, fnName, construct, c.pos(in), "field "+f+" is never set on this "+typ)
				continue
			}
			bad := ""
			for _, v := range vals {
				if !want.MatchString(v) {
					bad = v
				}
			}
			c.R.Check(bad == "", rule, fnName, construct, c.pos(in), fmt.Sprintf("field %s is set from %q", f, bad))
		}
	}
	if n < min {
		c.R.Unknown(rule, fnName, label, c.P.FuncPos(fn), fmt.Sprintf("found %d literal(s) of %s, expected at least %d", n, typ, min))
	}
}

// fieldIs builds a selector: the literal has a field whose (single) value
// matches the regexp.
func fieldIs(field, valRe string) func(map[string][]string) bool {
	r := re(valRe)
	return func(f map[string][]string) bool {
		for _, v := range f[field] {
			if r.MatchString(v) {
				return true
			}
		}
		return false
	}
}

// AllMatch: every instruction of fn matching selRe also matches mustRe, and
// there are at least min of them.
func (c *Ctx) AllMatch(rule, fnName, label, selRe, mustRe string, min int) {
	fn := c.Fn(rule, fnName)
	if fn == nil {
		return
	}
	sel := matches(fn, selRe)
	if len(sel) < min {
		c.R.Unknown(rule, fnName, label, c.P.FuncPos(fn), fmt.Sprintf("found %d instruction(s) matching /%s/, expected at least %d", len(sel), selRe, min))
		return
	}
	mr := re(mustRe)
	for i, in := range sel {
		c.R.Check(mr.MatchString(ir.InstrDesc(in)), rule, fnName, fmt.Sprintf("%s[%d]: /%s/ has the form /%s/", label, i, selRe, mustRe), c.pos(in),
			"found: "+ir.InstrDesc(in))
	}
}

// ReachSpec is the general path obligation all others are instances of.
// Exploration starts after each instruction matching From (or at the entry),
// does not continue past instructions matching Stop, does not follow edges of
// the Cut clauses, and the obligation is that instructions matching Target
// ("EXIT" = any return) are reachable (Want) or unreachable (!Want).
type ReachSpec struct {
	From   string
	// FromEdge: start at the target blocks of the edges matching this clause.
	FromEdge *ir.Clause
	Stop   string
	Cut    []ir.Clause
	Target string
	Want   bool
}

func (c *Ctx) Reach(rule, fnName, label string, sp ReachSpec) {
	fn := c.Fn(rule, fnName)
	if fn == nil {
		return
	}
	var stop func(ssa.Instruction) bool
	if sp.Stop != "" {
		sr := re(sp.Stop)
		stop = func(in ssa.Instruction) bool { return sr.MatchString(ir.InstrDesc(in)) }
	}
	cut := func(a ir.Atom) bool {
		for _, cl := range sp.Cut {
			if cl.MatchAtom(a) {
				return true
			}
		}
		return false
	}
	type start struct {
		b   *ssa.BasicBlock
		idx int
		pos string
		eb  *ssa.BasicBlock // seeding edge (FromEdge)
		es  int
	}
	var starts []start
	if sp.FromEdge != nil {
		for _, b := range fn.Blocks {
			for i, sb := range b.Succs {
				if sp.FromEdge.MatchEdge(b, i) {
					pos := c.P.FuncPos(fn)
					if len(sb.Instrs) > 0 {
						pos = c.pos(sb.Instrs[0])
					}
					starts = append(starts, start{sb, 0, pos, b, i})
				}
			}
		}
		if len(starts) == 0 {
			c.R.Unknown(rule, fnName, label, c.P.FuncPos(fn), "no edge matches start clause {"+sp.FromEdge.Name+"}")
			return
		}
	} else if sp.From == "" {
		starts = []start{{ir.Entry(fn), 0, c.P.FuncPos(fn), nil, 0}}
	} else {
		for _, in := range matches(fn, sp.From) {
			starts = append(starts, start{in.Block(), ir.IndexOf(in) + 1, c.pos(in), nil, 0})
		}
		if len(starts) == 0 {
			c.R.Unknown(rule, fnName, label, c.P.FuncPos(fn), "no instruction matches start /"+sp.From+"/")
			return
		}
	}
	var targets []ssa.Instruction
	if sp.Target == "EXIT" {
		targets = ir.Exits(fn, false)
	} else {
		targets = matches(fn, sp.Target)
	}
	if len(targets) == 0 {
		c.R.Unknown(rule, fnName, label, c.P.FuncPos(fn), "no instruction matches target /"+sp.Target+"/")
		return
	}
	for i, st := range starts {
		w := &ir.Walk{Stop: stop, Cut: cut}
		if st.eb != nil {
			w.FromEdge(st.eb, st.es)
		} else {
			w.From(st.b, st.idx)
		}
		var hit ssa.Instruction
		for _, t := range targets {
			if w.Reached[t] && !(stop != nil && stop(t)) {
				hit = t
				break
			}
		}
		construct := fmt.Sprintf("%s[%d]", label, i)
		if sp.Want {
			c.R.Check(hit != nil, rule, fnName, construct, st.pos, fmt.Sprintf("no instruction matching /%s/ is reachable from here (stop=/%s/)", sp.Target, sp.Stop))
		} else if hit != nil {
			c.R.Bad(rule, fnName, construct, st.pos, fmt.Sprintf("%q at %s is reachable without passing /%s/ and without crossing the guard edges; path: %s",
				ir.InstrDesc(hit), c.pos(hit), sp.Stop, strings.Join(w.PathTo(c.P, hit), " -> ")))
		} else {
			c.R.OK(rule, fnName, construct, st.pos, "")
		}
	}
}
