package props

import (
	"golang.org/x/tools/go/ssa"

	"sort"
	"strings"

	"nxcheck/internal/ir"
)

func init() {
	register(&Check{
		ID: "C10",
		Decides: "that in the session message loop every hand-off to the broker or dealer is reachable only through one of the three permitted edges (no Authorizer configured, the realm's meta session, authzMessage returned true) " +
			"and passes on the very message that was authorized; that the ten broker/dealer entry methods have no other callers; that authzMessage returns true only when the Authorizer said so or for a local session " +
			"without RequireLocalAuthz; that a refusal sends one ERROR — unless the message is an unacknowledged PUBLISH — carrying the message's type and request id (one arm per dispatched type) and " +
			"authorization_failed exactly when the Authorizer returned an error, else not_authorized; that no broker/dealer code is reachable from the refusal path.",
		NotDecided: "what a user Authorizer does to the message or session (it is called under the session lock with a copy of id/details), behaviour over histories.",
		Run:        runC10,
	})
}

const inMsg = `select\{recv:call:invoke:wamp\.Peer\.Recv\[%sess\.Peer\]\(\);recv:call:wamp\.\(\*Session\)\.RecvDone\(%sess\)\}#2`

func runC10(c *Ctx) {
	him := rlm + "handleInboundMessages"
	az := rlm + "authzMessage"
	entry := `router\.\(\*(broker|dealer)\)\.(publish|yield|call|cancel|subscribe|register|unsubscribe|unregister|error)`

	const r1 = "C10.R1 authorization gate in front of the dispatch"
	gate := clause("no authorizer, meta session, or authorized",
		T(`^\(%r\.authorizer == nil\)$`), T(`^\(%r\.metaSess == %sess\)$`), T(`^call:router\.\(\*realm\)\.authzMessage\(%r, %sess, `+inMsg+`\)$`))
	c.Guard(r1, him, "hand-off to broker/dealer", `^call:`+entry+`\(`, 9, gate)
	c.AllMatch(r1, him, "dispatched message is the authorized one", `^call:`+entry+`\(`, `^call:`+entry+`\(%r\.(broker|dealer), %sess, `+inMsg+`\.\(\*wamp\.[A-Za-z]+\),ok#0\)$`, 9)
	c.R.Floor(r1, 18)

	const r2 = "C10.R2 broker/dealer entry methods are called only by the dispatcher"
	c.OnlyCalledFrom(r2, "entry methods", `^`+entry+`$`, `^router\.\(\*realm\)\.handleInboundMessages$`, 9)
	uses := c.FuncValueUses(`^` + entry + `$`)
	c.R.Check(len(uses) == 0, r2, "router", "entry methods are never taken as function values", "-", "an entry method is used as a value (it could be called around the gate)")
	c.OnlyCalledFrom(r2, "authzMessage", `^router\.\(\*realm\)\.authzMessage$`, `^router\.\(\*realm\)\.handleInboundMessages$`, 1)
	c.R.Floor(r2, 11)

	const r3 = "C10.R3 authzMessage decision and refusal"
	// the exemption of local sessions is wired to the option that is documented for it, and to nothing else
	c.Fields(r3, "router.newRealm", "realm literal", "router.realm", nil, map[string]string{"localAuthz": `^%config\.RequireLocalAuthz$`, "authorizer": `^%config\.Authorizer$`}, 1)
	authz := `call:invoke:router\.Authorizer\.Authorize\[%r\.authorizer\]\(new\(wamp\.Session\), %msg\)`
	c.Guard(r3, az, "return true", `^return:true$`, 2,
		clause("authorized or local", T(`^`+authz+`#0$`), T(`^call:invoke:wamp\.Peer\.IsLocal\[%sess\.Peer\]\(\)$`)),
		clause("authorized or local authorization not required", T(`^`+authz+`#0$`), F(`^%r\.localAuthz$`)))
	c.Fields(r3, az, "session shown to the Authorizer", "wamp.Session", nil, map[string]string{"ID": `^%sess\.ID$`, "Details": `^%sess\.Details$`}, 1)
	refusal := `^select\{send:call:invoke:wamp\.Peer\.Send\[%sess\.Peer\]\(\)<-new\(wamp\.Error\);default\}$`
	c.Guard(r3, az, "refusal ERROR", refusal, 1,
		clause("not authorized", F(`^`+authz+`#0$`)),
		clause("not an unacknowledged PUBLISH", F(`^%msg\.\(\*wamp\.Publish\),ok#1$`), T(`^%msg\.\(\*wamp\.Publish\),ok#0\.Options\["acknowledge"\]\.\(bool\),ok#0$`),
			T(`^%msg\.\(\*wamp\.(Call|Cancel|Error|Goodbye|Register|Subscribe|Unregister|Unsubscribe|Yield)\),ok#1$`))) // another concrete type matched: not a PUBLISH, in whatever order the arms are tested
	denied := clause("Authorizer refused", F(`^`+authz+`#0$`))
	c.Reach(r3, az, "every refusal other than an unacknowledged PUBLISH is answered", ReachSpec{FromEdge: &denied, Stop: refusal,
		Cut: []ir.Clause{clause("unacknowledged", F(`^%msg\.\(\*wamp\.Publish\),ok#0\.Options\["acknowledge"\]\.\(bool\),ok#0$`))}, Target: "EXIT", Want: false})
	c.Reach(r3, az, "a refusal returns false", ReachSpec{FromEdge: &denied, Target: `^return:true$`, Want: false})
	if fn := c.Fn(r3, az); fn != nil {
		n := len(matches(fn, `^select\{send:|^send:|^call:router\.`))
		c.R.Check(n == 1, r3, az, "exactly one send in authzMessage (one ERROR per refusal)", c.P.FuncPos(fn), "unexpected number of sends/calls")
	}
	errNil := `\(` + authz + `#1 == nil\)`
	c.Guard(r3, az, "authorization_failed", `^store:new\(wamp\.Error\)\.&Error="wamp\.error\.authorization_failed"$`, 1, clause("Authorizer returned an error", F(`^`+errNil+`$`)))
	c.Guard(r3, az, "not_authorized", `^store:new\(wamp\.Error\)\.&Error="wamp\.error\.not_authorized"$`, 1, clause("Authorizer returned no error", T(`^`+errNil+`$`)))
	c.AllMatch(r3, az, "error URI is one of the two", `^store:new\(wamp\.Error\)\.&Error=`, `="wamp\.error\.(authorization_failed|not_authorized)"$`, 2)
	c.Has(r3, az, "ERROR carries the refused message's type", `^store:new\(wamp\.Error\)\.&Type=call:invoke:wamp\.Message\.MessageType\[%msg\]\(\)$`, 1)
	// no routing code behind the refusal
	if fn := c.Fn(r3, az); fn != nil {
		bad := ""
		for f := range ir.ReachableFrom(fn) {
			n := ir.ShortName(f)
			if strings.HasPrefix(n, "router.(*broker)") || strings.HasPrefix(n, "router.(*dealer)") {
				bad = n
			}
		}
		c.R.Check(bad == "", r3, az, "no broker/dealer code reachable from authzMessage", c.P.FuncPos(fn), "reaches "+bad)
	}
	// a realm created from the realm template is configured by a whole copy of the template (so with its Authorizer
	// and authorization options), only the URI differs
	at := "router.(*router).AttachClient$1"
	if fn := c.Fn(r3, at); fn != nil {
		whole := len(matches(fn, `^store:&local:config=\*\^r\.realmTemplate$`)) > 0
		var lit []string
		for _, in := range ir.Instrs(fn) {
			if a, ok := in.(*ssa.Alloc); ok && ir.TypeStr(a.Type()) == "*router.RealmConfig" {
				for _, v := range ir.LiteralFields(a)["Authorizer"] {
					lit = append(lit, ir.Desc(v))
				}
			}
		}
		litOK := len(lit) > 0
		for _, v := range lit {
			if !re(`realmTemplate\.Authorizer$`).MatchString(v) {
				litOK = false
			}
		}
		c.R.Check(whole || litOK, r3, at, "template realm inherits the template's Authorizer", c.P.FuncPos(fn),
			"the configuration of a realm created from the template is neither a whole copy of the template nor a literal whose Authorizer comes from it: such realms would act on every message unchecked")
		c.AllMatch(r3, at, "only the URI of the copied template is changed", `^store:&local:config\.&`, `^store:&local:config\.&URI=\^hello\.Realm$`, 1)
	}
	ruleOnlyInProcessIsLocal(c, r3) // the local-session exemption applies to in-process sessions only
	c.R.Floor(r3, 20)

	const r4 = "C10.R4 refusal carries the request id of every dispatched message type"
	dispatched := typesIn(c, him, `^`+inMsg+`\.\(\*wamp\.([A-Za-z]+)\),ok#1$`)
	handled := typesIn(c, az, `^%msg\.\(\*wamp\.([A-Za-z]+)\),ok#1$`)
	hs := map[string]bool{}
	for _, t := range handled {
		hs[t] = true
	}
	n := 0
	for _, t := range dispatched {
		if t == "Goodbye" { // not routed; carries no request id
			continue
		}
		n++
		c.R.Check(hs[t], r4, az, "request-id arm for "+t, c.P.FuncPos(c.P.Func(az)), "the dispatcher routes *wamp."+t+" but authzMessage has no arm copying its request id into the refusal ERROR")
		c.Guard(r4, az, "request id of "+t, `^store:new\(wamp\.Error\)\.&Request=%msg\.\(\*wamp\.`+t+`\),ok#0\.Request$`, 1,
			clause("message is a "+t, T(`^%msg\.\(\*wamp\.`+t+`\),ok#1$`)))
	}
	c.R.Check(n >= 9, r4, him, "dispatched types enumerated", "-", "fewer than the nine routed message types found in the dispatch switch")
	c.R.Floor(r4, 19)
}

func typesIn(c *Ctx, fnName, pattern string) []string {
	fn := c.P.Func(fnName)
	if fn == nil {
		return nil
	}
	r := re(pattern)
	set := map[string]bool{}
	for _, a := range ir.AtomsOf(fn) {
		if m := r.FindStringSubmatch(a); m != nil {
			set[m[1]] = true
		}
	}
	var out []string
	for k := range set {
		out = append(out, k)
	}
	sort.Strings(out)
	return out
}
