package props

import (
	_ "embed"
	"encoding/json"

	"nxcheck/internal/ir"
)

//go:embed frozen_names.json
var frozenNames []byte

func init() {
	m := map[string]ir.CanonNames{}
	if err := json.Unmarshal(frozenNames, &m); err == nil {
		ir.Canon = m
	}
}
