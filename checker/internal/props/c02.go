package props

import (
	"fmt"

	"golang.org/x/tools/go/ssa"

	"nxcheck/internal/ir"
)

func init() {
	register(&Check{
		ID: "C02",
		Decides: "that every exit path of dealer.syncCall either answers the caller (ERROR of the CALL / ABORT) or has recorded the call and sent the INVOCATION (or failed through syncError); " +
			"that in syncYield, syncError, syncCancel and syncRemoveSession a final reply to the caller is paired with forgetting the call (calls, invocations, invocationByCall) and with stopping its timer; " +
			"that replies carry the request id stored for the call and go to the session stored for it; that a departing callee's invocations are cancelled through syncCancel(skip) even when a kill-mode " +
			"cancel is outstanding; that the timeout goroutine posts exactly a killnowait/timeout cancel and nothing when its context was cancelled; that RESULT and call ERRORs originate only in the dealer's actions.",
		NotDecided: "liveness under all interleavings (that a callee ever answers, that a RESULT dropped for a blocked caller is retried long enough), the kill-mode wait itself, histories.",
		Run: runC02,
	})
}

const (
	dlr = `router.(*dealer).`
	// descriptors used across the dealer rules
	dCallKey   = `\*new\(router\.requestID\)\{session=%caller\.ID,request=%msg\.Request\}`
	dInvkKey   = `\*new\(router\.requestID\)\{session=%callee\.ID,request=%msg\.Request\}`
	dTrySendTo = `^call:router\.\(\*dealer\)\.trySend\(%d, `
)

func runC02(c *Ctx) {
	// R1: syncCall answers or records on every exit
	const r1 = "C02.R1 syncCall: every exit answered or recorded"
	sc := dlr + "syncCall"
	answer := dTrySendTo + `%caller, (new\(wamp\.Error\)|&local:abortMsg)\)$`
	invSelect := `^select\{send:call:invoke:wamp\.Peer\.Send\[.*\]\(\)<-new\(wamp\.Invocation\);default\}$`
	c.Reach(r1, sc, "no silent exit", ReachSpec{Stop: answer + `|` + invSelect, Target: "EXIT", Want: false})
	// a new call is recorded in all three tables before the INVOCATION is attempted
	cont := clause("continuation of a progressive call", T(`^%d\.invocationByCall\[`+dCallKey+`\],ok#1$`))
	for _, tbl := range []string{"calls", "invocations", "invocationByCall"} {
		c.Reach(r1, sc, "new call recorded in d."+tbl+" before INVOCATION", ReachSpec{
			Stop: `^mapupdate:%d\.` + tbl + `\[`, Cut: []ir.Clause{cont}, Target: invSelect, Want: false})
	}
	c.Has(r1, sc, "call recorded under (caller session, request)", `^mapupdate:%d\.calls\[`+dCallKey+`\]=%caller$`, 1)
	c.Has(r1, sc, "call -> invocation recorded", `^mapupdate:%d\.invocationByCall\[`+dCallKey+`\]=\*new\(router\.requestID\)\{session=.*\.ID,request=call:wamp\.\(\*SyncIDGen\)\.Next\(`, 1)
	c.Has(r1, sc, "invocation recorded", `^mapupdate:%d\.invocations\[\*new\(router\.requestID\)\{session=.*\.ID,request=call:wamp\.\(\*SyncIDGen\)\.Next\(.*\]=new\(router\.invocation\)$`, 1)
	c.Fields(r1, sc, "invocation literal", "router.invocation", nil, map[string]string{
		"callID": `^` + dCallKey + `$`, "options": `^%msg\.Options$`,
	}, 1)
	// a failed INVOCATION send goes through syncError (which answers the caller) and nothing else follows
	okSend := clause("INVOCATION sent", T(`^\(select\{send:.*<-new\(wamp\.Invocation\);default\}#0 == 0\)$`))
	c.Reach(r1, sc, "blocked callee answered through syncError", ReachSpec{
		From: invSelect, Stop: `^call:router\.\(\*dealer\)\.syncError\(%d, `, Cut: []ir.Clause{okSend}, Target: "EXIT", Want: false})
	c.Fields(r1, sc, "network_failure error", "wamp.Error", fieldIs("Error", `network_failure`), map[string]string{
		"Type": `^68$`, "Request": `^phi\(%d\.invocationByCall\[` + dCallKey + `\],ok#0\.request\|call:wamp\.\(\*SyncIDGen\)\.Next\(`,
	}, 1)
	// every refusal carries the CALL's type and request id
	c.Fields(r1, sc, "refusal ERRORs", "wamp.Error", fieldIs("Type", `MessageType\(%msg\)`), map[string]string{
		"Request": `^%msg\.Request$`, "Type": `^call:wamp\.\(\*Call\)\.MessageType\(%msg\)$`,
	}, 4)
	c.R.Floor(r1, 14)

	// R2: final reply <=> forgotten
	const r2 = "C02.R2 final reply paired with forgetting the call"
	// syncError
	se := dlr + "syncError"
	seCall := `%d\.invocations\[` + dInvkKey + `\],ok#0\.callID`
	seSend := dTrySendTo + `%d\.calls\[` + seCall + `\],ok#0, new\(wamp\.Error\)\)$`
	for _, del := range []string{
		`^call:builtin:delete\(%d\.invocations, ` + dInvkKey + `\)$`,
		`^call:builtin:delete\(%d\.invocationByCall, ` + seCall + `\)$`,
		`^call:builtin:delete\(%d\.calls, ` + seCall + `\)$`,
	} {
		c.Reach(r2, se, "syncError forgets before replying: "+del, ReachSpec{Stop: del, Target: seSend, Want: false})
	}
	c.Reach(r2, se, "syncError: known invocation with pending call is answered", ReachSpec{
		Stop: seSend, Cut: []ir.Clause{
			clause("unknown invocation", F(`^%d\.invocations\[`+dInvkKey+`\],ok#1$`)),
			clause("call already answered", F(`^%d\.calls\[`+seCall+`\],ok#1$`))},
		Target: "EXIT", Want: false})
	c.Fields(r2, se, "ERROR to caller", "wamp.Error", nil, map[string]string{
		"Type": `^48$`, "Request": `^` + seCall + `\.request$`, "Error": `^%msg\.Error$`,
		"Arguments": `^%msg\.Arguments$`, "ArgumentsKw": `^%msg\.ArgumentsKw$`, "Details": `^%msg\.Details$`,
	}, 1)
	// syncCancel
	scn := dlr + "syncCancel"
	cnInv := `%d\.invocationByCall\[` + dCallKey + `\],ok#0`
	cnSend := dTrySendTo + `%caller, new\(wamp\.Error\)\)$`
	for _, del := range []string{
		`^call:builtin:delete\(%d\.calls, ` + dCallKey + `\)$`,
		`^call:builtin:delete\(%d\.invocationByCall, ` + dCallKey + `\)$`,
		`^call:builtin:delete\(%d\.invocations, ` + cnInv + `\)$`,
	} {
		c.Reach(r2, scn, "syncCancel forgets before replying: "+del, ReachSpec{Stop: del, Target: cnSend, Want: false})
	}
	c.Fields(r2, scn, "ERROR to caller", "wamp.Error", nil, map[string]string{
		"Type": `^48$`, "Request": `^%msg\.Request$`, "Error": `^%reason$`,
	}, 1)
	// an effective cancel (owner, pending, not yet cancelled, not the kill-mode wait) always answers
	killWait := clause("kill mode after INTERRUPT was sent", T(`^\(%mode == "kill"\)$`))
	c.Reach(r2, scn, "effective cancel answers the caller", ReachSpec{
		From: `^store:.*\.&canceled=true$`, Stop: cnSend, Cut: []ir.Clause{killWait}, Target: "EXIT", Want: false})
	// syncYield: final (non-progress) results forget the call through the deferred cleanup
	sy := dlr + "syncYield"
	resSelect := `^select\{send:call:invoke:wamp\.Peer\.Send\[.*\]\(\)<-new\(wamp\.Result\);default\}$`
	prog := clause("progressive result", T(`^%progress$`))
	c.Reach(r2, sy, "final RESULT only after the cleanup is deferred", ReachSpec{
		Stop: `^defer:router\.\(\*dealer\)\.syncYield\$1\(\)$`, Cut: []ir.Clause{prog}, Target: resSelect, Want: false})
	syd := sy + "$1"
	keep := clause("retry pending or progressive invocation in progress", F(`^\^keepInvocation$`))
	inprog := clause("progressive call still in progress", F(`^\^invk\.inProgress$`))
	for _, del := range []string{
		`^call:builtin:delete\(\^d\.invocations, \^invkReqID\)$`,
		`^call:builtin:delete\(\^d\.invocationByCall, \^callID\)$`,
		`^call:builtin:delete\(\^d\.calls, \^callID\)$`,
	} {
		c.Guard(r2, syd, "cleanup "+del, del, 1, keep, inprog)
		c.Reach(r2, syd, "cleanup always runs unless kept: "+del, ReachSpec{
			Stop: del, Cut: []ir.Clause{clause("kept", T(`^\^keepInvocation$`), T(`^\^invk\.inProgress$`))}, Target: "EXIT", Want: false})
	}
	// keepInvocation is set only on the retry path
	c.Guard(r2, sy, "keepInvocation only when retrying", `^store:&local:keepInvocation=true$`, 1, clause("canRetry", T(`^%canRetry$`)))
	if fn := c.Fn(r2, sy); fn != nil {
		// captured cells of the cleanup are the ones computed here
		for _, w := range [][2]string{
			{"invkReqID", `^` + dInvkKey + `$`},
			{"callID", `^%d\.invocations\[` + dInvkKey + `\],ok#0\.callID$`},
		} {
			ok := false
			for _, in := range ir.Instrs(fn) {
				if st, isSt := in.(*ssa.Store); isSt && ir.Desc(st.Addr) == "&local:"+w[0] && re(w[1]).MatchString(ir.Desc(st.Val)) {
					ok = true
				}
			}
			c.R.Check(ok, r2, sy, "cleanup key "+w[0]+" identifies this invocation's call", c.P.FuncPos(fn), "local "+w[0]+" is not assigned from /"+w[1]+"/")
		}
	}
	// blocked caller without retry: cancel (which answers/forgets)
	c.Reach(r2, sy, "undeliverable RESULT without retry cancels the call", ReachSpec{
		From: resSelect, Stop: `^call:router\.\(\*dealer\)\.syncCancel\(%d, %d\.calls\[.*\],ok#0, new\(wamp\.Cancel\), "killnowait", "wamp\.error\.canceled", nil\)$|^store:&local:keepInvocation=true$`,
		Cut: []ir.Clause{clause("RESULT sent", T(`^\(select\{send:.*<-new\(wamp\.Result\);default\}#0 == 0\)$`))}, Target: "EXIT", Want: false})
	c.R.Floor(r2, 24)

	// R3: provenance of replies
	const r3 = "C02.R3 replies carry the stored request id and go to the stored caller"
	syCall := `%d\.invocations\[` + dInvkKey + `\],ok#0\.callID`
	c.Fields(r3, sy, "RESULT literal", "wamp.Result", nil, map[string]string{
		"Request": `^` + syCall + `\.request$`, "Arguments": `^%msg\.Arguments$`, "ArgumentsKw": `^%msg\.ArgumentsKw$`, "Details": `^makemap\(wamp\.Dict\)$`,
	}, 1)
	c.Has(r3, sy, "RESULT goes to the caller stored for this call",
		`^select\{send:call:invoke:wamp\.Peer\.Send\[%d\.calls\[`+syCall+`\],ok#0\.Peer\]\(\)<-new\(wamp\.Result\);default\}$`, 1)
	c.Guard(r3, sy, "RESULT send", resSelect, 1,
		clause("invocation known", T(`^%d\.invocations\[`+dInvkKey+`\],ok#1$`)),
		clause("yield from the invocation's callee", T(`^\(%callee == %d\.invocations\[`+dInvkKey+`\],ok#0\.callee\)$`)),
		clause("call still pending", T(`^%d\.calls\[`+syCall+`\],ok#1$`)))
	c.Guard(r3, sy, "progress flag only on progressive results", `^mapupdate:makemap\(wamp\.Dict\)\["progress"\]=true$`, 1, prog)
	c.Guard(r3, scn, "cancel effects", cnSend, 1,
		clause("call pending", T(`^%d\.calls\[`+dCallKey+`\],ok#1$`)),
		clause("canceller owns the call", T(`^\(%caller == %d\.calls\[`+dCallKey+`\],ok#0\)$`)),
		clause("not already cancelled", F(`^%d\.invocations\[`+cnInv+`\],ok#0\.canceled$`)))
	c.R.Floor(r3, 9)

	// R4: callee gone
	const r4 = "C02.R4 departing callee's invocations are cancelled"
	ruleCalleeGone(c, r4)
	ruleDealerRemoval(c, r4)
	c.R.Floor(r4, 12)

	// R5: timer
	const r5 = "C02.R5 call timeout timer"
	t1, t2 := sc+"$1", sc+"$1$1"
	c.Guard(r5, t1, "post cancel action", `^send:\^d\.actionChan<-closure:router\.\(\*dealer\)\.syncCall\$1\$1$`, 1,
		clause("context expired (not cancelled)", F(`^call:errors\.Is\(call:invoke:context\.Context\.Err\[\^timerCtx\]\(\), \*g:context\.Canceled\)$`)))
	c.Before(r5, t1, "waits for the timer", `^call:invoke:context\.Context\.Done\[\^timerCtx\]\(\)$`, `^send:\^d\.actionChan`)
	c.Has(r5, t2, "timeout cancels as killnowait with wamp.error.timeout",
		`^call:router\.\(\*dealer\)\.syncCancel\(\^d, \^caller, new\(wamp\.Cancel\), "killnowait", "wamp\.error\.timeout", `, 1)
	c.Fields(r5, t2, "CANCEL literal", "wamp.Cancel", nil, map[string]string{"Request": `^\^msg\.Request$`}, 1)
	ruleTimerStoppedOnFinal(c, r5)
	ruleTimersStoppedOnRemoval(c, r5)
	c.R.Floor(r5, 11)

	// R6: who may answer a call
	const r10 = "C02.R10 what decides the timeout handling and the end of a callee's session is what the sessions announced and did"
	ruleFeatureTable(c, r10)
	ruleEndSessionGoodbye(c, r10)
	ruleProgressiveStickiness(c, r10)
	c.R.Floor(r10, 12)

	const r6 = "C02.R6 RESULT and call ERROR originate only in dealer actions"
	n := 0
	for _, fn := range c.P.FuncsIn("router") {
		name := ir.ShortName(fn)
		for _, in := range ir.Instrs(fn) {
			a, ok := in.(*ssa.Alloc)
			if !ok {
				continue
			}
			switch ir.TypeStr(a.Type()) {
			case "*wamp.Result":
				n++
				c.R.Check(name == sy, r6, name, "RESULT literal", c.pos(in), "a RESULT message is built outside dealer.syncYield")
			case "*wamp.Error":
				lf := ir.LiteralFields(a)
				for _, v := range lf["Type"] {
					d := ir.Desc(v)
					if d == "48" || re(`wamp\.\(\*Call\)\.MessageType`).MatchString(d) {
						n++
						okFn := re(`^router\.\(\*dealer\)\.sync(Call|Error|Cancel|FailCall)$|^router\.\(\*realm\)\.authzMessage$`).MatchString(name)
						c.R.Check(okFn, r6, name, fmt.Sprintf("ERROR(CALL) literal #%d", n), c.pos(in), "an ERROR of type CALL is built in "+name)
					}
				}
			}
		}
	}
	ruleFailCall(c, r6)
	c.R.Floor(r6, 15)

	// R7: the end of a callee's session always reaches the dealer (so that R4 applies)
	const r7 = "C02.R7 a session's end reaches the dealer"
	ruleSessionRemoval(c, r7)
	c.R.Floor(r7, 14)

	const r8 = "C02.R8 a refused call is not recorded (no second final reply through CANCEL or callee departure)"
	ruleCallRecording(c, r8)
	c.R.Floor(r8, 3)
	const r9 = "C02.R9 a router-handled timeout arms the timer"
	ruleTimeout(c, r9)
	c.R.Floor(r9, 12)
}

// ruleCalleeGone: every invocation a departing callee was serving is cancelled towards its caller, also when a
// kill-mode cancel is outstanding.
func ruleCalleeGone(c *Ctx, r4 string) {
	rs := dlr + "syncRemoveSession"
	goneCancel := `^call:router\.\(\*dealer\)\.syncCancel\(%d, %d\.calls\[range\(%d\.invocations\)#v\.callID\],ok#0, new\(wamp\.Cancel\), "skip", "wamp\.error\.canceled", `
	c.Guard(r4, rs, "cancel for departed callee", goneCancel, 1,
		clause("invocation is served by the leaving session", T(`^\(%sess == range\(%d\.invocations\)#v\.callee\)$`)),
		clause("call pending", T(`^%d\.calls\[range\(%d\.invocations\)#v\.callID\],ok#1$`)))
	c.Fields(r4, rs, "CANCEL literal", "wamp.Cancel", nil, map[string]string{"Request": `^range\(%d\.invocations\)#v\.callID\.request$`}, 1)
	// every invocation of the leaving callee with a pending call reaches the cancel
	c.Reach(r4, rs, "no served invocation skipped", ReachSpec{
		From: "", Stop: goneCancel, Cut: []ir.Clause{
			clause("other callee", F(`^\(%sess == range\(%d\.invocations\)#v\.callee\)$`)),
			clause("no pending call", F(`^%d\.calls\[range\(%d\.invocations\)#v\.callID\],ok#1$`)),
			clause("loop over invocations done", F(`^next:range\(%d\.invocations\)#more$`))},
		Target: `^call:builtin:delete\(%d\.calls, range\(%d\.calls\)#k\)$|^return:`, Want: false})
	// D28: a kill-mode cancel outstanding must not swallow the callee-gone reply
	c.Reach(r4, rs, "outstanding kill-mode cancel does not suppress the reply (canceled mark cleared first)", ReachSpec{
		Stop: `^store:range\(%d\.invocations\)#v\.&canceled=false$`, Target: goneCancel, Want: false})
	// ... and only for the invocations of the leaving callee: another callee's outstanding kill-mode cancel stays marked
	// (clearing it lets a second CANCEL interrupt that callee again and answer the caller twice)
	c.Guard(r4, rs, "canceled mark cleared", `^store:.*\.&canceled=false$`, 1,
		clause("invocation is served by the leaving session", T(`^\(%sess == range\(%d\.invocations\)#v\.callee\)$`)))
}

// ruleTimersStoppedOnRemoval: a call forgotten because its caller or callee left has its timeout timer stopped (else
// the timer goroutine outlives the call and dealer.close waits for it).
func ruleTimersStoppedOnRemoval(c *Ctx, r5 string) {
	c.Has(r5, dlr+"syncRemoveSession", "session removal stops timers (both loops)", `^call:dyn:.*\.timerCancel\(\)$`, 2)
	c.Has(r5, dlr+"syncRemoveSession", "the timer stopped for a leaving caller's call is the one of that call's invocation", `^call:dyn:%d\.invocations\[%d\.invocationByCall\[range\(%d\.calls\)#k\],ok#0\],ok#0\.timerCancel\(\)$`, 1)
	c.Has(r5, dlr+"syncRemoveSession", "the timer stopped for a leaving callee's invocation is that invocation's", `^call:dyn:range\(%d\.invocations\)#v\.timerCancel\(\)$`, 1)
}

// ruleTimerStoppedOnFinal: whatever ends a call (final RESULT, ERROR from the callee, CANCEL) stops its timeout timer
// first, so that a timeout can never act on a call that already completed.
func ruleTimerStoppedOnFinal(c *Ctx, r5 string) {
	se := dlr + "syncError"
	seCall := `%d\.invocations\[` + dInvkKey + `\],ok#0\.callID`
	seSend := dTrySendTo + `%d\.calls\[` + seCall + `\],ok#0, new\(wamp\.Error\)\)$`
	scn := dlr + "syncCancel"
	cnInv := `%d\.invocationByCall\[` + dCallKey + `\],ok#0`
	cnSend := dTrySendTo + `%caller, new\(wamp\.Error\)\)$`
	sy := dlr + "syncYield"
	resSelect := `^select\{send:call:invoke:wamp\.Peer\.Send\[.*\]\(\)<-new\(wamp\.Result\);default\}$`
	prog := clause("progressive result", T(`^%progress$`))
	// the timer is stopped on every final path
	for _, f := range []struct{ fn, guard string }{
		{se, `^call:dyn:%d\.invocations\[` + dInvkKey + `\],ok#0\.timerCancel\(\)$`},
		{scn, `^call:dyn:%d\.invocations\[` + cnInv + `\],ok#0\.timerCancel\(\)$`},
		{sy, `^call:dyn:%d\.invocations\[` + dInvkKey + `\],ok#0\.timerCancel\(\)$`},
	} {
		c.Has(r5, f.fn, "stops the call's timer", f.guard, 1)
	}
	c.Reach(r5, sy, "final result stops the timer when one exists", ReachSpec{
		Stop: `^call:dyn:.*\.timerCancel\(\)$`, Cut: []ir.Clause{prog, clause("no timer", T(`^\(.*\.timerCancel == nil\)$`))}, Target: resSelect, Want: false})
	c.Reach(r5, se, "error stops the timer when one exists", ReachSpec{
		Stop: `^call:dyn:.*\.timerCancel\(\)$`, Cut: []ir.Clause{clause("no timer", T(`^\(.*\.timerCancel == nil\)$`))}, Target: seSend, Want: false})
	c.Reach(r5, scn, "cancel stops the timer when one exists", ReachSpec{
		Stop: `^call:dyn:.*\.timerCancel\(\)$`, Cut: []ir.Clause{clause("no timer", T(`^\(.*\.timerCancel == nil\)$`))}, Target: cnSend, Want: false})
}

// ruleOneTimerPerCall: the router-side timeout timer of a call is started only while the call has none (a second timer
// would overwrite the only handle to the first, which then cannot be stopped when the call ends: it would act on a
// finished call and hold up Close for its client-chosen duration).
func ruleOneTimerPerCall(c *Ctx, rule string) {
	sc := dlr + "syncCall"
	c.Guard(rule, sc, "timer started and recorded", `^store:phi\(.*\)\.&timerCancel=call:context\.WithTimeout\(`, 1,
		clause("the call has no timer yet", T(`^\(phi\(.*\)\.timerCancel == nil\)$`)),
		clause("a router-handled timeout was asked for", T(`^\(0 < (phi\(0\|.*\)|call:wamp\.AsInt64\(.*)\)$`)))
	c.Guard(rule, sc, "timer goroutine started", `^go:router\.\(\*dealer\)\.syncCall\$1\(`, 1, clause("the call has no timer yet", T(`^\(phi\(.*\)\.timerCancel == nil\)$`)))
	if fn := c.P.Func(sc); fn != nil {
		c.R.Check(len(matches(fn, `\.&timerCancel=`)) == 1, rule, sc, "the timer handle is written in one place only", c.P.FuncPos(fn), "several stores to invocation.timerCancel in syncCall")
	}
}

// ruleFailCall: a result that cannot be passed on ends the call through syncFailCall, which forgets the call in all
// three tables under the right keys (a stale call->invocation entry makes a later CALL with that id dereference a
// missing invocation) and answers the stored caller once.
func ruleFailCall(c *Ctx, r6 string) {
	sy := dlr + "syncYield"
	// a result that cannot be passed on (payload-passthru refused) ends the call through syncFailCall: forget, then
	// one ERROR of type CALL under the caller's own request id
	fc := dlr + "syncFailCall"
	c.OnlyCalledFrom(r6, "syncFailCall", `^router\.\(\*dealer\)\.syncFailCall$`, `^router\.\(\*dealer\)\.syncYield$`, 2)
	c.Fields(r6, fc, "ERROR for the failed call", "wamp.Error", nil, map[string]string{"Type": `^48$`, "Request": `^%invk\.callID\.request$`}, 1)
	fcSend := dTrySendTo + `(%caller|%d\.calls\[%invk\.callID\](,ok#0)?), new\(wamp\.Error\)\)$` // the stored caller: passed in, or looked up under the call
	for _, del := range []string{`^call:builtin:delete\(%d\.invocations, %invkReqID\)$`, `^call:builtin:delete\(%d\.invocationByCall, %invk\.callID\)$`, `^call:builtin:delete\(%d\.calls, %invk\.callID\)$`} {
		c.Reach(r6, fc, "failed call forgotten before the caller is answered: "+del, ReachSpec{Stop: del, Target: fcSend, Want: false})
	}
	c.Reach(r6, fc, "failed call's timer stopped", ReachSpec{Stop: `^call:dyn:%invk\.timerCancel\(\)$`, Cut: []ir.Clause{clause("no timer", T(`^\(%invk\.timerCancel == nil\)$`))}, Target: fcSend, Want: false})
	c.Has(r6, sy, "the call failed is the one of this invocation, answered to its stored caller",
		`^call:router\.\(\*dealer\)\.syncFailCall\(%d, %d\.invocations\[`+dInvkKey+`\],ok#0, `+dInvkKey+`, (%d\.calls\[%d\.invocations\[`+dInvkKey+`\],ok#0\.callID\],ok#0, )?`, 2)
	// no other message reaches the caller from syncYield: every direct send to the stored caller is the RESULT
	c.HasNot(r6, sy, "no ERROR is sent to the caller directly from syncYield", dTrySendTo+`%d\.calls\[.*\],ok#0, new\(wamp\.Error\)\)$`)
}
