package props

import (
	"fmt"
	"strings"

	"nxcheck/internal/ir"
)

func init() {
	register(&Check{
		ID: "C15",
		Decides: "for the rawsocket transport: that a frame is written only when its payload fits both the peer's announced limit and the 24-bit length field, that a payload buffer is allocated only for a length within our own " +
			"announced limit, that oversize and reserved-type frames end that connection and deliver nothing (no nil message), that frame types are decoded from the three low bits, that PING is answered with type 2, the same " +
			"length bytes and exactly length payload bytes, that the send limit comes from the peer's handshake nibble and the receive limit from our own, in both handshake directions, and that serializer codes 1/2/3 map to " +
			"JSON/MessagePack/CBOR identically in client handshake, server handshake and getProtoByte; for websocket: that sub-protocol names map to the same serializers and payload types on both sides and that an " +
			"unserialisable message is skipped without ending the send loop; for the router: that numeric arguments are read type-tolerantly (same behaviour for every serializer).",
		NotDecided: "corruption through partial writes or concurrent writers on one connection, equality of observable router behaviour across transports (a relation between executions), TLS and dialing.",
		Run: runC15,
	})
}

func runC15(c *Ctx) {
	rh := "transport.(*rawSocketPeer).recvHandler"
	sh := "transport.(*rawSocketPeer).sendHandler"
	const r1 = "C15.R1 reserved and oversize frames end the connection; nothing undecoded reaches the router"
	ruleNoNilMessage(c, r1)
	length := `call:transport\.bytesToInt\(&local:header\[1:\]\)`
	tooBig := clause("length within our announced limit", F(`^\(%rs\.recvLimit < `+length+`\)$`))
	c.Guard(r1, rh, "payload buffer allocated", `^val:makeslice\(\[\]byte\)$`, 1, tooBig, clause("frame is a WAMP message", T(`^\(\(&local:header\[0\] & 7\) == 0\)$`)))
	over := clause("oversize frame", T(`^\(%rs\.recvLimit < `+length+`\)$`))
	c.Reach(r1, rh, "an oversize frame closes the connection and ends the loop", ReachSpec{FromEdge: &over, Stop: `^call:invoke:net\.Conn\.Close\[%rs\.conn\]\(\)$`, Target: "EXIT", Want: false})
	c.Reach(r1, rh, "nothing is read or delivered after an oversize frame", ReachSpec{FromEdge: &over, Target: `^call:io\.ReadFull\(|^select\{send:`, Want: false})
	// the limit holds for control frames too: whatever is read, skipped or echoed according to the length field
	c.Guard(r1, rh, "length-dependent read/skip/echo", `^call:io\.ReadFull\(%rs\.conn, makeslice|^call:io\.CopyN\(|^call:invoke:net\.Conn\.Write\[%rs\.conn\]`, 3, tooBig)
	reserved := clause("frame type is none of 0,1,2", F(`^\(\(&local:header\[0\] & 7\) == 2\)$`))
	c.Reach(r1, rh, "a reserved frame type closes the connection", ReachSpec{FromEdge: &reserved, Stop: `^call:invoke:net\.Conn\.Close\[%rs\.conn\]\(\)$`, Target: "EXIT", Want: false})
	c.Reach(r1, rh, "nothing is delivered or read after a reserved frame type", ReachSpec{FromEdge: &reserved, Target: `^call:io\.|^select\{send:`, Want: false})
	if fn := c.Fn(r1, rh); fn != nil {
		atoms := strings.Join(ir.AtomsOf(fn), "\n")
		for _, k := range []string{"0", "1", "2"} {
			c.R.Check(strings.Contains(atoms, "((&local:header[0] & 7) == "+k+")"), r1, rh, "frame type "+k+" decoded from the three low bits of the first byte", c.P.FuncPos(fn), "test `header[0] & 0x07 == "+k+"` not found")
		}
	}
	c.Guard(r1, rh, "message delivered to the router", `^select\{send:%rs\.rd<-`, 2, clause("frame is a WAMP message", T(`^\(\(&local:header\[0\] & 7\) == 0\)$`)),
		clause("payload decoded", T(`^\(call:invoke:serialize\.Serializer\.Deserialize\[%rs\.serializer\]\(makeslice\(\[\]byte\)\)#1 == nil\)$`)),
		clause("payload read completely", T(`^\(call:io\.ReadFull\(%rs\.conn, makeslice\(\[\]byte\)\)#1 == nil\)$`)))
	c.R.Floor(r1, 16)

	const r2 = "C15.R2 frames are written only when they fit"
	payload := `call:invoke:serialize\.Serializer\.Serialize\[%rs\.serializer\]\(select\{recv:%rs\.wr;recv:call:invoke:context\.Context\.Done\[%rs\.ctxSender\]\(\)\}#2\)#0`
	c.Guard(r2, sh, "frame header written", `^call:invoke:net\.Conn\.Write\[%rs\.conn\]\(newarr\(\[4\]byte\)\[:\]\)$|^call:invoke:net\.Conn\.Write\[%rs\.conn\]\(.*header`, 1,
		clause("payload within the peer's limit", F(`^\(%rs\.sendLimit < call:builtin:len\(`+payload+`\)\)$`)),
		clause("payload length fits 24 bits", F(`^\(16777215 < call:builtin:len\(`+payload+`\)\)$`)),
		clause("message serialised", T(`^\(call:invoke:serialize\.Serializer\.Serialize\[%rs\.serializer\]\(.*\)#1 == nil\)$`)))
	c.Has(r2, sh, "length bytes encode the payload length", `^call:transport\.intToBytes\(call:builtin:len\(`+payload+`\)\)$`, 1)
	c.Has(r2, sh, "payload written is the serialised message", `^call:invoke:net\.Conn\.Write\[%rs\.conn\]\(`+payload+`\)$`, 1)
	c.Before(r2, sh, "header precedes payload", `^call:invoke:net\.Conn\.Write\[%rs\.conn\]\(newarr|^call:invoke:net\.Conn\.Write\[%rs\.conn\]\(.*header`, `^call:invoke:net\.Conn\.Write\[%rs\.conn\]\(`+payload+`\)$`)
	c.Has(r2, "transport.intToBytes", "big-endian 24-bit length", `^return:`, 1)
	c.R.Floor(r2, 6)

	const r3 = "C15.R3 handshake: limits and serializer codes"
	for _, hs := range []struct{ fn, code, q string }{
		{"transport.clientHandshake", `%protocol`, `0`}, {"transport.serverHandshake", `\(&local:buf\[1\] & 15\)`, `%outQueueSize`},
	} {
		c.Has(r3, hs.fn, "send limit from the peer's nibble, receive limit from our own",
			`^call:transport\.newRawSocketPeer\(%conn, phi\(.*\), %logger, call:transport\.byteToLength\(\(&local:buf\[1\] >> 4\)\), call:transport\.byteToLength\(call:transport\.fitRecvLimit\(%recvLimit\)\), `+hs.q+`\)$`, 1)
		for code, ser := range map[string]string{"1": "JSONSerializer", "2": "MessagePackSerializer", "3": "CBORSerializer"} {
			c.Guard(r3, hs.fn, "serializer "+ser, `^val:new\(serialize\.`+ser+`\)$`, 1, clause("code "+code, T(`^\(`+hs.code+` == `+code+`\)$`)))
		}
		c.Guard(r3, hs.fn, "peer created", `^call:transport\.newRawSocketPeer\(`, 1, clause("magic byte present", T(`^\(&local:buf\[0\] == 127\)$`)))
	}
	c.Guard(r3, "transport.serverHandshake", "peer created", `^call:transport\.newRawSocketPeer\(`, 1,
		clause("reserved bytes zero", T(`^\(&local:buf\[2\] == 0\)$`)), clause("reserved bytes zero (2)", T(`^\(&local:buf\[3\] == 0\)$`)),
		clause("a known serializer", T(`^\(\(&local:buf\[1\] & 15\) == [123]\)$`)))
	c.Guard(r3, "transport.clientHandshake", "peer created", `^call:transport\.newRawSocketPeer\(`, 1,
		clause("router accepted", F(`^\(\(&local:buf\[1\] & 15\) == 0\)$`)), clause("router answered with the requested serializer", T(`^\(%protocol == \(&local:buf\[1\] & 15\)\)$`)))
	gp := "transport.getProtoByte"
	for code, ser := range map[string]string{"1": `[01]`, "2": `2`, "3": `3`} {
		_ = ser
		c.Has(r3, gp, "code "+code+" returned", `^return:`+code+`, nil$`, 1)
	}
	c.Has(r3, "transport.byteToLength", "length byte means 2^(9+n)", `^return:conv:int\(\(1 << \(%b \+ 9\)\)\)$|^return:\(1 << \(%b \+ 9\)\)$`, 1)
	ruleQueueDefault(c, r3) // transports are interchangeable: every session has a buffered outbound queue
	c.R.Floor(r3, 16)

	const r4 = "C15.R4 PING is answered by PONG with the same payload"
	ping := clause("frame is a PING", T(`^\(\(&local:header\[0\] & 7\) == 1\)$`))
	c.Guard(r4, rh, "reply header type 2", `^store:&local:header\.&\[0\]=2$`, 1, ping)
	c.Guard(r4, rh, "payload echoed", `^call:io\.CopyN\(%rs\.conn, %rs\.conn, conv:int64\(`+length+`\)\)$`, 1, ping)
	c.Reach(r4, rh, "PING: header (with the received length bytes) written before the payload is echoed", ReachSpec{FromEdge: &ping, Stop: `^call:invoke:net\.Conn\.Write\[%rs\.conn\]\(&local:header\[:\]\)$`, Target: `^call:io\.CopyN\(`, Want: false})
	c.Reach(r4, rh, "PING: type byte set before the header is written", ReachSpec{FromEdge: &ping, Stop: `^store:&local:header\.&\[0\]=2$`, Target: `^call:invoke:net\.Conn\.Write\[`, Want: false})
	c.AllMatch(r4, rh, "header bytes other than the type are never rewritten", `^store:&local:header\.&\[`, `^store:&local:header\.&\[0\]=2$`, 1)
	c.Guard(r4, rh, "PONG payload discarded", `^call:io\.CopyN\(\*g:io\.Discard, %rs\.conn, conv:int64\(`+length+`\)\)$`, 1, clause("frame is a PONG", T(`^\(\(&local:header\[0\] & 7\) == 2\)$`)))
	c.R.Floor(r4, 6)

	const r5 = "C15.R5 websocket sub-protocols and unserialisable messages"
	cw := "transport.ConnectWebsocketPeer"
	sub := `call:invoke:transport\.WebsocketConnection\.Subprotocol\[.*\]\(\)|call:\(\*github\.com/gorilla/websocket\.Conn\)\.Subprotocol\(.*\)`
	for proto, ser := range map[string]string{"wamp.2.json": "JSONSerializer", "wamp.2.msgpack": "MessagePackSerializer", "wamp.2.cbor": "CBORSerializer"} {
		c.Guard(r5, cw, "client: "+proto+" -> "+ser, `^val:new\(serialize\.`+ser+`\)$`, 1, clause("negotiated "+proto, T(`^\((`+sub+`) == "`+strings.ReplaceAll(proto, ".", `\.`)+`"\)$`)))
	}
	for _, f := range []string{"transport.(*websocketPeer).sendHandler", "transport.(*websocketPeer).sendHandlerKeepAlive"} {
		serr := clause("serialisation failed", F(`^\(call:invoke:serialize\.Serializer\.Serialize\[%w\.serializer\]\(.*\)#1 == nil\)$`))
		c.Reach(r5, f, "an unserialisable message does not end the send loop", ReachSpec{FromEdge: &serr, Stop: `^select\{`, Target: "EXIT", Want: false})
		c.Reach(r5, f, "an unserialisable message is not written", ReachSpec{FromEdge: &serr, Stop: `^select\{`, Target: `^call:invoke:transport\.WebsocketConnection\.WriteMessage\[%w\.conn\]\(%w\.payloadType`, Want: false})
	}
	ruleKeepAliveCloses(c, r5)
	ruleWebsocketServerProtocols(c, r5)
	c.R.Floor(r5, 9)

	const r6 = "C15.R6 numeric arguments are read type-tolerantly (same behaviour for every serializer)"
	ruleNumericTolerance(c, r6)
	c.R.Floor(r6, 7)
}

var _ = fmt.Sprint
