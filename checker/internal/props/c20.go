package props

import (
	"fmt"
	"go/types"
	"strings"

	"golang.org/x/tools/go/ssa"

	"nxcheck/internal/ir"
)

func init() {
	register(&Check{
		ID: "C20",
		Decides: "that numeric arguments of get_events (and of every other router-side reader of client data) are never read through an assertion to a concrete numeric type, which only in-process callers satisfy; that a subscription " +
			"with a history store is never deleted when its last subscriber leaves; that a publication is saved only for subscriptions with a store, only when it carries neither an exclude nor an eligible session list, as an event " +
			"prepared for no particular subscriber, into the store of that very subscription; that the ring drops its oldest entry exactly when at the limit before appending, with a positive configured limit; that the query " +
			"applies the publication-id bounds before the topic filter and returns stored events of the store looked up under the given subscription id.",
		NotDecided: "filter semantics over run-time values (time and publication-id bounds, reverse x limit), ordering of entries by time, which the deque and time packages carry.",
		Run: runC20,
	})
}

func numericType(t types.Type) bool {
	b, ok := t.Underlying().(*types.Basic)
	return ok && b.Info()&(types.IsInteger|types.IsFloat) != 0
}

// ruleNumericTolerance: no assertion of client data to a concrete numeric type.
func ruleNumericTolerance(c *Ctx, rule string) {
	n := 0
	for _, fn := range c.P.FuncsIn("router") {
		name := ir.ShortName(fn)
		for _, in := range ir.Instrs(fn) {
			ta, ok := in.(*ssa.TypeAssert)
			if !ok || !numericType(ta.AssertedType) {
				continue
			}
			n++
			c.R.Check(!fromAny(ta.X, 0), rule, name, "numeric assertion "+ir.Desc(ta), c.pos(in),
				"client data is asserted to the concrete type "+ir.TypeStr(ta.AssertedType)+": JSON and CBOR decode numbers as uint64/float64, msgpack as int64/uint64, so this matches only for in-process callers (use wamp.AsInt64 / AsID / AsFloat64)")
		}
	}
	c.R.OK(rule, "router", fmt.Sprintf("%d numeric type assertions enumerated", n), "-", "")
	// the tolerant accessors are what subEventHistory uses
	seh := brk + "subEventHistory"
	c.Has(rule, seh, "limit read type-tolerantly", `^call:wamp\.AsInt64\(%msg\.ArgumentsKw\["limit"\]\)$`, 1)
	for _, k := range []string{"from_publication", "after_publication", "before_publication", "until_publication"} {
		c.Has(rule, seh, k+" read type-tolerantly", `^call:wamp\.AsID\(%msg\.ArgumentsKw\["`+k+`"\],ok#0\)$`, 1)
	}
	c.Has(rule, seh, "subscription id read type-tolerantly", `^call:wamp\.AsID\(%msg\.Arguments\[0\]\)$`, 1)
}

func runC20(c *Ctx) {
	const r1 = "C20.R1 numeric arguments are read type-tolerantly"
	ruleNumericTolerance(c, r1)
	c.R.Floor(r1, 7)

	const r2 = "C20.R2 subscriptions with history are retained"
	keeps := clause("subscription has no history store", F(`^call:router\.\(\*broker\)\.syncKeepsHistory\(%b, `), F(`^%b\.eventHistoryStore\[.*\],ok#1$`))
	nDel := 0
	for _, f := range []string{brk + "syncUnsubscribe", brk + "syncRemoveSession"} {
		fn := c.Fn(r2, f)
		if fn == nil {
			continue
		}
		nDel += len(matches(fn, `^call:router\.\(\*broker\)\.syncDelSubscription\(`))
		c.Guard(r2, f, "subscription deleted", `^call:router\.\(\*broker\)\.syncDelSubscription\(`, 1, keeps)
	}
	c.OnlyCalledFrom(r2, "syncDelSubscription", `^router\.\(\*broker\)\.syncDelSubscription$`, `^router\.\(\*broker\)\.sync(Unsubscribe|RemoveSession)$`, 2)
	kh := brk + "syncKeepsHistory"
	if c.P.Func(kh) != nil {
		c.Has(r2, kh, "retention test looks the subscription up in the history store", `^return:%b\.eventHistoryStore\[%sub\],ok#1$`, 1)
	} else {
		c.R.OK(r2, "router", "retention test is the lookup in the history store itself (no helper)", "-", "")
	}
	// the store table is only written at construction
	nW := 0
	for _, fn := range c.P.FuncsIn("router") {
		for _, in := range matches(fn, `^mapupdate:%b\.eventHistoryStore\[|^call:builtin:delete\(%b\.eventHistoryStore`) {
			nW++
			c.R.Check(ir.ShortName(fn) == brk+"PreInitEventHistoryTopics", r2, ir.ShortName(fn), "history store table written only at construction", c.pos(in), "the table of history stores is changed at run time")
		}
	}
	c.R.Check(nW == 1 && nDel == 2, r2, "router", "history table writes and subscription deletions enumerated", "-", fmt.Sprintf("writes=%d deletions=%d", nW, nDel))
	ruleMatchFunctions(c, r2) // pattern histories retain what the match functions say matches
	c.R.Floor(r2, 12)

	const r3 = "C20.R3 only unrestricted publications are saved, as subscriber-independent events"
	pe := brk + "syncPubEvent"
	save := `^call:router\.\(\*broker\)\.syncSaveEvent\(%b, %b\.eventHistoryStore\[%sub\],ok#0, %msg, call:router\.prepareEvent\(%pub, %msg, %pubID, %sub, %sendTopic, %disclose, %eventDetails, nil\)\)$`
	c.Guard(r3, pe, "publication saved", save, 1,
		clause("subscription has a history store", T(`^%b\.eventHistoryStore\[%sub\],ok#1$`)),
		clause("no exclude list", F(`^%msg\.Options\["exclude"\],ok#1$`)),
		clause("no eligible list", F(`^%msg\.Options\["eligible"\],ok#1$`)))
	c.Reach(r3, pe, "an unrestricted publication to a history subscription is always saved", ReachSpec{
		FromEdge: &ir.Clause{Name: "has store", Edges: []ir.EdgeSpec{T(`^%b\.eventHistoryStore\[%sub\],ok#1$`)}},
		Stop:     save, Cut: []ir.Clause{clause("restricted", T(`^%msg\.Options\["(exclude|eligible)"\],ok#1$`))}, Target: "EXIT", Want: false})
	c.OnlyCalledFrom(r3, "syncSaveEvent", `^router\.\(\*broker\)\.syncSaveEvent$`, `^router\.\(\*broker\)\.syncPubEvent$`, 1)
	sv := brk + "syncSaveEvent"
	c.Fields(r3, sv, "stored event", "router.storedEvent", nil, map[string]string{
		"Subscription": `^%event\.Subscription$`, "Publication": `^%event\.Publication$`, "Details": `^%event\.Details$`,
		"Arguments": `^%event\.Arguments$`, "ArgumentsKw": `^%event\.ArgumentsKw$`, "timestamp": `^call:time\.Now\(\)$`}, 1)
	ruleLocalCopies(c, r3) // an in-process subscriber gets copies: it cannot modify the retained event
	c.R.Floor(r3, 9)

	const r4 = "C20.R4 history ring keeps the most recent limit entries"
	pop := `^call:\(\*github\.com/gammazero/deque\.Deque\[T\]\)\.PopFront\(%eventStore\.&entries\)$`
	push := `^call:\(\*github\.com/gammazero/deque\.Deque\[T\]\)\.PushBack\(%eventStore\.&entries, `
	c.Guard(r4, sv, "oldest entry dropped", pop, 1, clause("store is at its limit", T(`^call:router\.\(\*historyStore\)\.atLimit\(%eventStore\)$`)))
	c.Reach(r4, sv, "a full store drops its oldest entry before appending", ReachSpec{
		FromEdge: &ir.Clause{Name: "at limit", Edges: []ir.EdgeSpec{T(`^call:router\.\(\*historyStore\)\.atLimit\(%eventStore\)$`)}}, Stop: pop, Target: push, Want: false})
	c.Reach(r4, sv, "every saved event is appended at the back", ReachSpec{Stop: push, Target: "EXIT", Want: false})
	c.Has(r4, "router.(*historyStore).atLimit", "at limit means len >= limit", `^return:\(call:\(\*github\.com/gammazero/deque\.Deque\[T\]\)\.Len\(%h\.&entries\) >= %h\.limit\)$`, 1)
	pi := brk + "PreInitEventHistoryTopics"
	c.Guard(r4, pi, "history store created", `^mapupdate:%b\.eventHistoryStore\[`, 1,
		clause("configured limit is positive", T(`^\(0 < %evntCfgs\[.*\]\.Limit\)$`)),
		clause("configured topic is valid for its match policy", T(`^call:wamp\.\(URI\)\.ValidURI\(%evntCfgs\[.*\]\.Topic, %b\.strictURI, %evntCfgs\[.*\]\.MatchPolicy\)$`)))
	c.Has(r4, pi, "store limit is the configured limit, keyed by the pre-created subscription",
		`^mapupdate:%b\.eventHistoryStore\[call:router\.\(\*broker\)\.syncInitSubscription\(%b, %evntCfgs\[.*\]\.Topic, %evntCfgs\[.*\]\.MatchPolicy, nil\)#0\]=new\(router\.historyStore\)\{matchPolicy=.*\.MatchPolicy,limit=%evntCfgs\[.*\]\.Limit\}$`, 1)
	c.R.Floor(r4, 7)

	const r5 = "C20.R5 query reads the store of the given subscription; bounds before topic filter"
	q1 := brk + "subEventHistory$1"
	store := `\^b\.eventHistoryStore\[\^b\.subscriptions\[\^subId\],ok#0\],ok#0`
	appendEv := `^store:newarr\(\[1\]router\.storedEvent\)\.&\[0\]=call:\(\*github\.com/gammazero/deque\.Deque\[T\]\)\.At\(` + store + `\.&entries, .*\)\.event$`
	c.Guard(r5, q1, "entry returned", appendEv, 1,
		clause("subscription exists", T(`^\^b\.subscriptions\[\^subId\],ok#1$`)),
		clause("subscription has a store", T(`^\^b\.eventHistoryStore\[\^b\.subscriptions\[\^subId\],ok#0\],ok#1$`)))
	topicLookup := `^val:&local:entry\.event\.Details\["topic"\],ok$`
	c.Reach(r5, q1, "publication-id bounds are applied before the topic filter", ReachSpec{
		From: topicLookup, Stop: `^call:\(\*github\.com/gammazero/deque\.Deque\[T\]\)\.At\(`, Target: `^store:\^(from|after)Pub=0$|^val:\(&local:entry\.event\.Publication == `, Want: false})
	c.Reach(r5, q1, "time bounds are applied before the topic filter", ReachSpec{
		From: topicLookup, Stop: `^call:\(\*github\.com/gammazero/deque\.Deque\[T\]\)\.At\(`, Target: `^call:\(time\.Time\)\.(Before|After)\(`, Want: false})
	c.Guard(r5, q1, "topic filter rejects only other topics", `^val:\(&local:entry\.event\.Details\["topic"\],ok#0 [!=]= (conv:any\()?\^topicUri\)?\)$`, 1,
		clause("a topic filter was given", T(`^\(0 < call:builtin:len\(\^topicUri\)\)$`)))
	c.Has(r5, q1, "limit-reached flag reports the store's state", `^store:\^isLimitReached=call:router\.\(\*historyStore\)\.atLimit\(`+store+`\)$`, 1)
	c.Has(r5, brk+"subEventHistory", "query keyed by the subscription id argument", `^store:&local:subId=call:wamp\.AsID\(%msg\.Arguments\[0\]\)#0$`, 1)
	c.Guard(r5, q1, "result cut to the requested limit", `^call:builtin:max\(`, 1, clause("a limit was given", T(`^\(0 < \^limit\)$`)))
	c.Guard(r5, q1, "result reversed", `^store:phi\(.*\)\.&\[phi\(\(phi↺ \+ 1\)\|0\)\]=`, 1, clause("reverse requested", T(`^\^reverse$`)))
	c.R.Floor(r5, 9)
}

var _ = strings.Contains
