package props

import (
	"fmt"
	"sort"
	"strings"

	"golang.org/x/tools/go/ssa"

	"nxcheck/internal/ir"
)

func init() {
	register(&Check{
		ID: "C07",
		Decides: "that every send to a client session's outbound queue in router and router/auth is non-blocking (select with default), the two reviewed blocking sends of the attach goroutine to its own client excepted; " +
			"that code confined to the dealer or broker goroutine contains no blocking hand-off at all (no action-channel send, no send to the meta peer); that the wait-for graph between the router's goroutine " +
			"roles (router/realm/broker/dealer loops, session handlers, meta-session handler, meta-procedure handler, attach, call timer), built from every blocking send/receive/Wait reachable in each role, is acyclic; " +
			"that the RESULT retry of dealer.yield is re-entered only while the dealer asks for it and stops asking once the deadline passed; that the meta-session handler, on which the other roles wait, never enters that retry (D26, repaired: no retry for the session with the meta session id); that outbound queues are created with the configured (defaulted) size; that a CANCEL is answered at once unless the callee was actually interrupted in kill mode.",
		NotDecided: "latency bounds, scheduler fairness, user callbacks (Authorizer, PublishFilter) run under a session lock.",
		Run: runC07,
	})
}

// peerSend describes one send on a channel obtained from Peer.Send().
type peerSend struct {
	fn       *ssa.Function
	in       ssa.Instruction
	peer     string // descriptor of the peer / session
	blocking bool
}

func peerSends(c *Ctx, pkgs []string) []peerSend {
	var out []peerSend
	isPeerSendChan := func(v ssa.Value) (string, bool) {
		call, ok := v.(*ssa.Call)
		if !ok {
			return "", false
		}
		cc := call.Common()
		if cc.IsInvoke() && cc.Method.Name() == "Send" && strings.HasSuffix(ir.TypeStr(cc.Value.Type()), "wamp.Peer") {
			return ir.Desc(cc.Value), true
		}
		return "", false
	}
	for _, fn := range c.P.NexusFuncs {
		if !inPkgs(ir.ShortName(fn), pkgs) {
			continue
		}
		for _, in := range ir.Instrs(fn) {
			switch x := in.(type) {
			case *ssa.Send:
				if p, ok := isPeerSendChan(x.Chan); ok {
					out = append(out, peerSend{fn, in, p, true})
				}
			case *ssa.Select:
				for _, st := range x.States {
					if st.Send == nil {
						continue
					}
					if p, ok := isPeerSendChan(st.Chan); ok {
						out = append(out, peerSend{fn, in, p, x.Blocking})
					}
				}
			}
		}
	}
	return out
}

// ruleNonBlocking: deliveries to client sessions never block.
func ruleNonBlocking(c *Ctx, rule string) {
	allowedBlocking := map[string]string{
		"router.(*router).AttachClient":   "WELCOME to the attaching goroutine's own client (\"Blocking OK; this is session goroutine\")",
		"router.(*router).AttachClient$1": "ABORT to the attaching goroutine's own client",
	}
	cf := computeConfinement(c)
	sends := peerSends(c, []string{"router", "router/auth"})
	n := 0
	for _, s := range sends {
		name := ir.ShortName(s.fn)
		n++
		meta := strings.Contains(s.peer, "metaPeer")
		construct := fmt.Sprintf("send to %s", s.peer)
		switch {
		case !s.blocking:
			c.R.OK(rule, name, construct+" is non-blocking", c.pos(s.in), "")
		case meta:
			o := cf.conf[s.fn]
			c.R.Check(o != "dealer" && o != "broker", rule, name, construct+" (blocking rendezvous with the meta session) is outside the dealer/broker goroutines", c.pos(s.in),
				"a blocking send to the meta peer runs inside the "+o+" goroutine: the meta-session handler may be waiting for that goroutine (deadlock described in dealer.removeSession)")
		default:
			_, ok := allowedBlocking[name]
			c.R.Check(ok, rule, name, construct+" does not block on a client", c.pos(s.in),
				"blocking send to a client session's queue: a client that stops reading blocks this goroutine (and everything waiting on it)")
		}
	}
	c.R.Check(n >= 20, rule, "router", "peer sends enumerated", "-", fmt.Sprintf("found %d", n))
	for _, f := range []string{brk + "trySend", dlr + "trySend"} {
		fn := c.Fn(rule, f)
		if fn == nil {
			continue
		}
		ok := false
		for _, in := range ir.Instrs(fn) {
			if sel, isSel := in.(*ssa.Select); isSel && !sel.Blocking && len(sel.States) == 1 && sel.States[0].Send != nil {
				ok = ir.Desc(sel.States[0].Send) == "%msg" && strings.Contains(ir.Desc(sel.States[0].Chan), "%sess")
			}
		}
		c.R.Check(ok, rule, f, "trySend is a single non-blocking send of its message to its session", c.P.FuncPos(fn), "trySend is not `select { case sess.Send() <- msg: default: }`")
	}
}

type wfEdge struct{ from, to, why string }

func runC07(c *Ctx) {
	const r1 = "C07.R1 deliveries to client sessions never block"
	ruleNonBlocking(c, r1)
	c.R.Floor(r1, 25)

	// R2 wait-for graph
	const r2 = "C07.R2 wait-for graph of goroutine roles is acyclic"
	cf, roles, mp := computeRoles(c, r2)
	him := c.P.Func(rlm + "handleInboundMessages")
	_ = him
	root := func(name string) *ssa.Function { return c.Fn(r2, name) }
	c.R.Check(len(mp) >= 20, r2, rlm+"setupMetaProcedures", "registered meta procedure handlers found", "-", fmt.Sprintf("found %d handler functions", len(mp)-1))

	var edges []wfEdge
	addEdge := func(from, to, why string) { edges = append(edges, wfEdge{from, to, why}) }
	for _, role := range sortedKeysF(roles) {
		for fn := range roles[role] {
			name := ir.ShortName(fn)
			if !strings.HasPrefix(name, "router.") {
				continue
			}
			// owner-confined functions belong to the owner's role only
			if o, ok := cf.conf[fn]; ok && role != o+"-run" {
				continue
			}
			for _, in := range ir.Instrs(fn) {
				switch x := in.(type) {
				case *ssa.Send:
					d := ir.Desc(x.Chan)
					if strings.HasSuffix(d, ".actionChan") {
						if ld, ok := x.Chan.(*ssa.UnOp); ok {
							if fa, ok := ld.X.(*ssa.FieldAddr); ok {
								addEdge(role, ownerOf(fa.X.Type())+"-run", name+" sends on "+d+" at "+c.pos(in))
							}
						}
					} else if strings.Contains(d, "metaPeer") && strings.Contains(d, "Peer.Send") {
						addEdge(role, "meta-handler", name+" blocks sending to the meta peer at "+c.pos(in))
					}
				case *ssa.UnOp:
					if x.Op.String() == "<-" {
						d := ir.Desc(x.X)
						switch {
						case strings.HasSuffix(d, ".metaDone"):
							addEdge(role, "meta-proc", name+" waits for metaDone at "+c.pos(in))
						case strings.HasSuffix(d, "d.stopped"):
							addEdge(role, "dealer-run", name+" waits for the dealer to stop at "+c.pos(in))
						case strings.HasSuffix(d, "b.stopped"):
							addEdge(role, "broker-run", name+" waits for the broker to stop at "+c.pos(in))
						case strings.HasSuffix(d, "r.stopped"):
							addEdge(role, ownerOf(x.X.(*ssa.UnOp).X.(*ssa.FieldAddr).X.Type())+"-run", name+" waits for a loop to stop at "+c.pos(in))
						}
					}
				case *ssa.Call:
					if f := x.Call.StaticCallee(); f != nil && f.String() == "(*sync.WaitGroup).Wait" && strings.Contains(ir.Desc(x.Call.Args[0]), "waitHandlers") {
						addEdge(role, "session-handler", name+" waits for all session handlers at "+c.pos(in))
					}
				}
			}
		}
	}
	// graph
	adj := map[string]map[string]string{}
	for _, e := range edges {
		if adj[e.from] == nil {
			adj[e.from] = map[string]string{}
		}
		if _, ok := adj[e.from][e.to]; !ok {
			adj[e.from][e.to] = e.why
		}
	}
	var edgeList []string
	for _, f := range sortedKeysF(adj) {
		for _, t := range sortedKeysF(adj[f]) {
			edgeList = append(edgeList, f+" -> "+t)
		}
	}
	c.R.Extra["wait_for_edges"] = edgeList
	c.R.Check(len(edgeList) >= 15, r2, "router", "wait-for edges found", "-", fmt.Sprintf("only %d role edges found", len(edgeList)))
	// out-degree zero for dealer-run and broker-run
	for _, leaf := range []string{"dealer-run", "broker-run"} {
		var outs []string
		for t, why := range adj[leaf] {
			outs = append(outs, t+" ("+why+")")
		}
		sort.Strings(outs)
		c.R.Check(len(outs) == 0, r2, leaf, "no blocking hand-off inside the "+leaf+" goroutine", "-", "blocking operations: "+strings.Join(outs, "; "))
	}
	// exempt self loop
	selfExempt := map[string]string{
		"meta-handler": "dealer.register/unregister are reachable from the meta session's handler and contain the blocking meta-peer send of their meta publications, but the meta session only registers wamp.* procedures (no meta publications) and never unregisters or leaves",
		"session-handler": "a session handler publishes meta events to the meta peer; it is not the meta-session handler itself (separate node meta-handler)",
	}
	// cycle detection (DFS)
	color := map[string]int{}
	var stack []string
	var cycle []string
	var dfs func(n string)
	dfs = func(n string) {
		if cycle != nil {
			return
		}
		color[n] = 1
		stack = append(stack, n)
		for _, t := range sortedKeysF(adj[n]) {
			if t == n {
				continue
			}
			// session-handler -> meta-handler is a wait on another goroutine; but meta-handler edges back to session-handler do not exist
			if color[t] == 1 {
				i := 0
				for k, s := range stack {
					if s == t {
						i = k
					}
				}
				cycle = append(append([]string{}, stack[i:]...), t)
				return
			}
			if color[t] == 0 {
				dfs(t)
			}
		}
		stack = stack[:len(stack)-1]
		color[n] = 2
	}
	for _, n := range sortedKeysF(adj) {
		if color[n] == 0 {
			dfs(n)
		}
	}
	detail := ""
	if cycle != nil {
		var parts []string
		for i := 0; i+1 < len(cycle); i++ {
			parts = append(parts, cycle[i]+" -> "+cycle[i+1]+" ["+adj[cycle[i]][cycle[i+1]]+"]")
		}
		detail = "cyclic wait: " + strings.Join(parts, " ; ")
	}
	c.R.Check(cycle == nil, r2, "router", "no cycle between goroutine roles", "-", detail)
	for n, why := range adj {
		if _, self := why[n]; self {
			_, ok := selfExempt[n]
			c.R.Check(ok, r2, n, "self-wait of role "+n+" is a reviewed one", "-", "role waits on itself: "+why[n])
		}
	}
	// D26: a role other roles wait on must not reach the client-dependent RESULT retry wait
	yield := root(dlr + "yield")
	waitedOn := map[string]bool{}
	for _, m := range adj {
		for t := range m {
			waitedOn[t] = true
		}
	}
	for _, role := range sortedKeysF(roles) {
		if !waitedOn[role] || role == "session-handler" {
			continue
		}
		reaches := roles[role][yield]
		if reaches && role == "meta-handler" {
			// the meta session's handler runs dealer.yield, but never its retry loop: the loop is entered only while
			// syncYield asks again (C07.R3), syncYield asks only when retrying is allowed (C07.R3), and yield allows
			// it for every callee except the session with the meta session's id — which is the session this role serves
			y := dlr + "yield"
			ok := true
			ok = c.localAssigned(r2, y, "canRetry", `^NOT \(%callee\.ID == 1\)$|^\(%callee\.ID != 1\)$`) && ok
			c.Has(r2, y+"$1", "the first attempt passes that permission on", `^call:router\.\(\*dealer\)\.syncYield\(\^d, \^callee, \^msg, \^progress, \^canRetry\)$`, 1)
			c.Has(r2, rlm+"createMetaSession", "the meta session is created with the meta session id", `^store:%r\.&metaSess=call:wamp\.NewSession\(call:transport\.LinkedPeers\(\)#1, 1, `, 1)
			c.Has(r2, rlm+"createMetaSession$1", "the meta-session handler serves exactly that session", `^call:router\.\(\*realm\)\.handleInboundMessages\(\^r, \^r\.metaSess\)$`, 1)
			c.R.Check(ok, r2, role, "role that others wait on cannot reach the client-dependent RESULT retry wait (dealer.yield)", c.P.FuncPos(yield),
				"dealer.yield does not disable the RESULT retry for the meta session: the meta-session handler, on which every other session's joins, leaves and registrations wait, would retry for up to sendResultDeadline behind one caller that does not drain its queue")
			continue
		}
		c.R.Check(!reaches, r2, role, "role that others wait on cannot reach the client-dependent RESULT retry wait (dealer.yield)", c.P.FuncPos(yield),
			"role "+role+" is waited on by other roles and can execute dealer.yield's retry loop, whose duration (up to sendResultDeadline) depends on a client draining its queue")
	}
	ruleMetaShutdownJoin(c, r2)
	ruleCompletionSignalled(c, r2)
	c.R.Floor(r2, 11)

	const r5 = "C07.R5 a cancel is answered at once unless the callee was actually interrupted in kill mode"
	ruleCancelMachine(c, r5)
	c.R.Floor(r5, 20)

	// R3 bounded retry
	const r3 = "C07.R3 RESULT retry is bounded"
	y := dlr + "yield"
	c.Guard(r3, y, "give up retrying", `^store:&local:retry=false$`, 1, clause("deadline passed", F(`^\(call:time\.Since\(call:time\.Now\(\)\) < 60000000000\)$`)))
	c.Reach(r3, y, "once the deadline passed the retry flag is cleared before the next attempt", ReachSpec{
		FromEdge: &ir.Clause{Name: "deadline passed", Edges: []ir.EdgeSpec{F(`^\(call:time\.Since\(call:time\.Now\(\)\) < 60000000000\)$`)}},
		Stop:     `^store:&local:retry=false$`, Target: `^send:%d\.actionChan<-`, Want: false})
	c.Guard(r3, y, "retry loop entered/continued only while the dealer asks again", `^val:<-call:time\.After\(`, 1, clause("again", T(`^local:again$`)))
	c.Has(r3, y+"$2", "retry attempts pass the retry flag", `^call:router\.\(\*dealer\)\.syncYield\(\^d, \^callee, \^msg, \^progress, \^retry\)$`, 1)
	sy := dlr + "syncYield"
	c.Guard(r3, sy, "ask for another attempt", `^store:new\(bool\)=true$`, 1, clause("retry allowed", T(`^%canRetry$`)),
		clause("RESULT could not be queued", F(`^\(select\{send:.*<-new\(wamp\.Result\);default\}#0 == 0\)$`)))
	c.Has(r3, y, "deadline is sendResultDeadline (one minute)", `^val:call:time\.Since\(call:time\.Now\(\)\)$|^call:time\.Since\(call:time\.Now\(\)\)$`, 1)
	c.Fields(r3, sy, "the call given up after the deadline is cancelled under the caller's own request id", "wamp.Cancel", nil, map[string]string{"Request": `^%d\.invocations\[\*new\(router\.requestID\)\{session=%callee\.ID,request=%msg\.Request\}\],ok#0\.callID\.request$`}, 1)
	c.Has(r3, sy, "… for the session that made the call", `^call:router\.\(\*dealer\)\.syncCancel\(%d, %d\.calls\[%d\.invocations\[\*new\(router\.requestID\)\{session=%callee\.ID,request=%msg\.Request\}\],ok#0\.callID\],ok#0, new\(wamp\.Cancel\), "killnowait"`, 1)
	c.R.Floor(r3, 8)

	// R4 queue sizes
	const r4 = "C07.R4 outbound queues have the configured size"
	lp := "transport.LinkedPeersQSize"
	c.Has(r4, lp, "router-to-client queue sized from the parameter (default 64 for 0)", `^val:makechan\(chan wamp\.Message,phi\(%queueSize\|64\)\)$|^val:makechan\(chan wamp\.Message,phi\(64\|%queueSize\)\)$`, 1)
	c.Guard(r4, lp, "default applied only for 0", `^val:makechan\(chan wamp\.Message,phi\(`, 1, clause("any", T(`^\(%queueSize == 0\)$`), F(`^\(%queueSize == 0\)$`)))
	for _, f := range []string{"transport.newRawSocketPeer", "transport.NewWebsocketPeer"} {
		c.Has(r4, f, "outbound queue sized from outQueueSize", `^val:makechan\(chan wamp\.Message,%outQueueSize\)$`, 1)
	}
	ruleQueueDefault(c, r4)
	c.R.Floor(r4, 4)
}

func sortedKeysF[V any](m map[string]V) []string {
	var ks []string
	for k := range m {
		ks = append(ks, k)
	}
	sort.Strings(ks)
	return ks
}

// computeRoles: the goroutine roles of the router and the functions that may
// run in each (owner loops by confinement, the others by synchronous
// reachability from their roots).
func computeRoles(c *Ctx, r2 string) (*confinement, map[string]map[*ssa.Function]bool, []*ssa.Function) {
	cf := computeConfinement(c)
	roles := map[string]map[*ssa.Function]bool{}
	for _, o := range cf.owners {
		set := map[*ssa.Function]bool{}
		for fn, oo := range cf.conf {
			if oo == o {
				set[fn] = true
			}
		}
		roles[o+"-run"] = set
	}
	root := func(name string) *ssa.Function { return c.Fn(r2, name) }
	him := root(rlm + "handleInboundMessages")
	roles["meta-handler"] = ir.SyncReachable(him)
	roles["session-handler"] = ir.SyncReachable(root(rlm + "handleSession$1"))
	mp := []*ssa.Function{root(rlm + "metaProcedureHandler")}
	for _, u := range c.FuncValueUses(`\$bound$`) {
		if ir.ShortName(u.Caller) == rlm+"setupMetaProcedures" {
			for _, fn := range c.P.FuncsIn("router") {
				if fn.String()+"$bound" == u.Callee {
					mp = append(mp, fn)
				}
			}
		}
	}
	roles["meta-proc"] = ir.SyncReachable(mp...)
	roles["attach"] = ir.SyncReachable(root("router.(*router).AttachClient"))
	roles["call-timer"] = ir.SyncReachable(root(dlr + "syncCall$1"))
	roles["api"] = ir.SyncReachable(root("router.(*router).Close"), root("router.(*router).RemoveRealm"), root("router.(*router).AddRealm"), root("router.NewRouter"))
	return cf, roles, mp
}
