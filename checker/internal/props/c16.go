package props

import (
	"fmt"
	"strings"

	"golang.org/x/tools/go/ssa"

	"nxcheck/internal/ir"
)

func init() {
	register(&Check{
		ID: "C16",
		Decides: "that every reply type the API functions wait for is handed by the receive loop to the waiter registered under the reply's own request id; that each blocking operation registers its waiter before sending the request that " +
			"carries the same (synchronised-generator) id and then waits on that id, and that every path after registering either waits or releases the waiter; that waiting removes the waiter on every exit; that Call and " +
			"CallProgressive close the progress channel and wait for the progress goroutine on every path after starting it; that a cancelled call sends CANCEL with the configured mode and reports the context's error; that " +
			"an invocation goroutine sends at most one YIELD/ERROR/ABORT per path, carrying the invocation's id, and is started only for a new invocation id accepted by the duplicate filter; that events are handled by a direct call.",
		NotDecided: "behaviour when replies coincide with timers (schedule), user handlers, the stated deviation that an unanswered CANCEL yields ErrReplyTimeout.",
		Run: runC16,
	})
}

const cl = `client.(*Client).`

func runC16(c *Ctx) {
	const r1 = "C16.R1 replies are routed by their own request id"
	rr := cl + "runReceiveFromRouter"
	dispatched := map[string]bool{}
	if fn := c.Fn(r1, rr); fn != nil {
		for _, in := range matches(fn, `^call:client\.\(\*Client\)\.runSignalReply\(`) {
			call := in.(*ssa.Call)
			m, id := ir.Desc(call.Call.Args[1]), ir.Desc(call.Call.Args[2])
			c.R.Check(id == m+".Request", r1, rr, "reply "+m+" signalled under its own Request", c.pos(in), "signalled under "+id)
			if i := strings.Index(m, ".(*wamp."); i >= 0 {
				dispatched[strings.TrimSuffix(m[i+8:], "),ok#0")] = true
			}
		}
	}
	awaited := map[string][]string{
		"Subscribe": {"Subscribed", "Error"}, "Unsubscribe": {"Unsubscribed", "Error"}, "Register": {"Registered", "Error"},
		"Unregister": {"Unregistered", "Error"}, "Publish": {"Published", "Error"}, "Call": {"Result", "Error"}, "CallProgressive": {"Result", "Error"},
	}
	for _, api := range sortedKeys(awaited) {
		for _, t := range awaited[api] {
			c.R.Check(dispatched[t], r1, cl+api, "awaited reply type "+t+" is dispatched to the waiter", "-", "the receive loop does not hand *wamp."+t+" to runSignalReply: "+api+" would time out")
		}
		// the API function recognises its reply types
		for _, t := range awaited[api] {
			c.Has(r1, cl+api, "recognises "+t, `\.\(\*wamp\.`+t+`\),ok`, 1)
		}
	}
	rs := cl + "runSignalReply"
	c.Has(r1, rs, "waiter looked up by the given id", `^val:%c\.awaitingReply\[%requestID\],ok$`, 1)
	c.Has(r1, rs, "message handed to that waiter", `^select\{send:%c\.awaitingReply\[%requestID\],ok#0\.msgs<-%msg;recv:`, 1)
	c.R.Floor(r1, 30)

	const r2 = "C16.R2 register waiter, send request with the same id, wait on it"
	id := `call:wamp\.\(\*SyncIDGen\)\.Next\(%c\.sess\.&IDGen\)`
	for _, api := range []struct{ name, msg, wait string }{
		{"Subscribe", "Subscribe", "waitForReply"}, {"Unsubscribe", "Unsubscribe", "waitForReply"}, {"Register", "Register", "waitForReply"},
		{"Unregister", "Unregister", "waitForReply"}, {"Publish", "Publish", "waitForReply"}, {"Call", "Call", "waitForReplyWithCancel"}, {"CallProgressive", "Call", "waitForReplyWithCancel"},
	} {
		f := cl + api.name
		expect := `^call:client\.\(\*Client\)\.expectReply\(%c, ` + id + `\)$`
		send := `^call:client\.\(\*Client\)\.send\(%c, new\(wamp\.` + api.msg + `\)\)$`
		wait := `^call:client\.\(\*Client\)\.` + api.wait + `\(%c, (%ctx, )?` + id
		c.Reach(r2, f, "waiter registered before the request is sent", ReachSpec{Stop: expect, Cut: pubNoAck(api.name), Target: send, Want: false})
		c.Reach(r2, f, "request sent before waiting", ReachSpec{Stop: send, Target: wait, Want: false})
		c.Reach(r2, f, "after registering, every exit waited or released the waiter", ReachSpec{From: expect, Stop: wait + `|^call:client\.\(\*Client\)\.(abandonCall|forgetReply)\(%c, ` + id, Cut: pubNoAck(api.name), Target: "EXIT", Want: false})
		c.Fields(r2, f, "request literal", "wamp."+api.msg, fieldIs("Request", `.`), map[string]string{"Request": `^(` + id + `|\^id)$`}, 1)
		if fn := c.Fn(r2, f); fn != nil {
			n := len(matches(fn, `^call:wamp\.\(\*SyncIDGen\)\.Next\(`))
			c.R.Check(n == 1, r2, f, "one request id per operation", c.P.FuncPos(fn), fmt.Sprintf("%d ids drawn", n))
		}
	}
	// acknowledged publish only
	pub := cl + "Publish"
	ack := clause("acknowledge requested", T(`^%options\["acknowledge"\]\.\(bool\),ok#0$`), T(`^phi\(.*acknowledge.*\)$`))
	c.Guard(r2, pub, "waiter registered", `^call:client\.\(\*Client\)\.expectReply\(`, 1, ack)
	ruleWaiterRemoved(c, r2)
	// request ids come from the synchronised generator, whose Next returns the very value drawn under its lock
	sg := "wamp.(*SyncIDGen).Next"
	c.Has(r2, sg, "id drawn under the lock", `^call:\(\*sync\.Mutex\)\.Lock\(%g\.&lock\)$`, 1)
	c.Before(r2, sg, "lock taken before the id is drawn", `^call:\(\*sync\.Mutex\)\.Lock\(%g\.&lock\)$`, `^call:wamp\.\(\*IDGen\)\.Next\(%g\.&IDGen\)$`)
	c.Has(r2, sg, "the value returned is the one drawn under the lock", `^return:call:wamp\.\(\*IDGen\)\.Next\(%g\.&IDGen\)$`, 1)
	if fn := c.P.Func(sg); fn != nil && len(matches(fn, `^call:\(\*sync\.Mutex\)\.Unlock\(`)) > 0 {
		// explicit unlock: it must come after the draw, and nothing of the generator is read after it
		c.Reach(r2, sg, "nothing of the generator is read after the lock is released", ReachSpec{From: `^call:\(\*sync\.Mutex\)\.Unlock\(`, Target: `^val:%g\.|^val:\*%g|^call:wamp\.\(\*IDGen\)\.`, Want: false})
		c.Reach(r2, sg, "the lock is not released before the id is drawn", ReachSpec{From: `^call:\(\*sync\.Mutex\)\.Lock\(%g\.&lock\)$`, Stop: `^call:wamp\.\(\*IDGen\)\.Next\(%g\.&IDGen\)$`, Target: `^call:\(\*sync\.Mutex\)\.Unlock\(`, Want: false})
	} else {
		c.R.OK(r2, sg, "the lock is held until Next returns (deferred unlock)", "-", "")
	}
	c.Has(r2, sg, "lock released", `^(defer|call):\(\*sync\.Mutex\)\.Unlock\(%g\.&lock\)$`, 1)
	c.R.Floor(r2, 44)

	const r3 = "C16.R3 progress handler finished before Call returns"
	for _, api := range []string{"Call", "CallProgressive"} {
		f := cl + api
		goProg := `^go:client\.\(\*Client\)\.` + api + `\$1\(\)$`
		hasCb := clause("a progress handler was given", F(`^\(%progcb == nil\)$`))
		c.Has(r3, f, "progress goroutine started", goProg, 1)
		c.Reach(r3, f, "progress goroutine awaited on every exit", ReachSpec{FromEdge: &hasCb, Stop: `^val:<-(local:progDone|makechan\(chan struct\{\},0\))$|^call:client\.\(\*Client\)\.abandonCall\(`,
			// the progress channel exists exactly when a handler was given (it is created under that very test)
			Cut: []ir.Clause{clause("no progress channel, hence no handler", T(`^\(local:progChan == nil\)$`))}, Target: "EXIT", Want: false})
		c.Guard(r3, f, "progress channel created", `^store:&local:progChan=makechan\(chan \*wamp\.Result,0\)$`, 1, hasCb)
		c.Reach(r3, f, "progress channel closed before waiting for the goroutine", ReachSpec{From: goProg, Stop: `^call:builtin:close\((local:progChan|makechan\(chan \*wamp\.Result,0\))\)$|^call:client\.\(\*Client\)\.abandonCall\(`, Target: `^val:<-(local:progDone|makechan\(chan struct\{\},0\))$`, Want: false})
		c.Has(r3, f+"$1", "handler called for each progressive result in order", `^call:dyn:\^progcb\(`, 1)
		c.Has(r3, f+"$1", "goroutine signals completion after the channel drained", `^call:builtin:close\(\^progDone\)$`, 1)
	}
	ab := cl + "abandonCall"
	if c.P.Func(ab) != nil {
		c.Reach(r3, ab, "abandonCall closes and waits when a progress goroutine exists", ReachSpec{Stop: `^val:<-%progDone$`, Cut: []ir.Clause{clause("no progress handler", T(`^\(%progChan == nil\)$`))}, Target: "EXIT", Want: false})
		c.Has(r3, ab, "abandonCall releases the waiter", waiterForgotten, 1)
	} else {
		// no helper: the callers release the waiter and wait for the progress goroutine themselves, which the two
		// per-exit obligations above ("every exit waited or released the waiter", "progress goroutine awaited") decide
		c.R.OK(r3, cl+"Call", "give-up path handled inline (no abandonCall helper)", "-", "")
		c.R.OK(r3, cl+"CallProgressive", "give-up path handled inline (no abandonCall helper)", "-", "")
	}
	wc := cl + "waitForReplyWithCancel"
	c.Guard(r3, wc, "progressive result forwarded", `^send:%progChan<-`, 1, clause("a progress channel exists", F(`^\(%progChan == nil\)$`)),
		clause("result carries the progress flag", T(`^.*\.Details\["progress"\]\.\(bool\),ok#0$`)))
	c.R.Floor(r3, 12)

	const r4 = "C16.R4 cancellation sends CANCEL with the configured mode and returns the context's error"
	ctxDone := clause("context done", T(`^\(select\{recv:%c\.awaitingReply\[%id\],ok#0\.msgs;recv:call:invoke:context\.Context\.Done\[%ctx\]\(\);recv:call:client\.\(\*Client\)\.Done\(%c\)\}#0 == 1\)$`))
	c.Guard(r4, wc, "CANCEL sent", `^call:client\.\(\*Client\)\.send\(%c, new\(wamp\.Cancel\)\)$`, 1, ctxDone)
	c.Fields(r4, wc, "CANCEL literal", "wamp.Cancel", nil, map[string]string{"Request": `^%id$`, "Options": `^call:wamp\.SetOption\(nil, "mode", %c\.cancelMode\)$`}, 1)
	c.Reach(r4, wc, "a done context always sends CANCEL", ReachSpec{FromEdge: &ctxDone, Stop: `^call:client\.\(\*Client\)\.send\(%c, new\(wamp\.Cancel\)\)$`, Target: "EXIT", Want: false})
	c.Has(r4, wc, "error is the context's error", `^call:invoke:context\.Context\.Err\[%ctx\]\(\)$`, 1)
	c.Has(r4, cl+"SetCallCancelMode", "mode validated", `^store:%c\.&cancelMode=`, 1)
	scm := cl + "SetCallCancelMode"
	c.Reach(r4, scm, "every accepted mode (the empty one means the default) is stored", ReachSpec{Stop: `^store:%c\.&cancelMode=`, Target: `^return:nil$`, Want: false})
	if fn := c.Fn(r4, scm); fn != nil {
		for _, in := range matches(fn, `^store:%c\.&cancelMode=`) {
			var leaves []ssa.Value
			phiLeaves(in.(*ssa.Store).Val, map[ssa.Value]bool{}, &leaves)
			def := false
			var other []string
			for _, l := range leaves {
				switch d := ir.Desc(l); d {
				case `"killnowait"`:
					def = true
				case "%cancelMode", `"kill"`, `"skip"`:
				default:
					other = append(other, d)
				}
			}
			c.R.Check(len(other) == 0, r4, scm, "stored mode is the validated argument or the default", c.pos(in), "stored value can be "+strings.Join(other, ", "))
			_ = def
		}
		emptyArm := clause("empty mode given", T(`^\(%cancelMode == ""\)$`))
		c.Reach(r4, scm, "the empty mode resets to the default killnowait", ReachSpec{FromEdge: &emptyArm, Stop: `^store:%c\.&cancelMode=(phi\(.*)?"killnowait"`, Target: "EXIT", Want: false})
	}
	c.R.Floor(r4, 6)

	const r5 = "C16.R5 one answer per invocation; handler goroutine per new invocation id"
	hi := cl + "runHandleInvocation"
	g1 := hi + "$1"
	answer := `^(select\{send:call:invoke:wamp\.Peer\.Send\[\^c\.sess\.Peer\]\(\)<-(new\(wamp\.(Error|Yield)\)|&local:abortMsg);recv:.*\}|send:call:invoke:wamp\.Peer\.Send\[\^c\.sess\.Peer\]\(\)<-(new\(wamp\.(Error|Yield)\)|&local:abortMsg))$`
	c.Reach(r5, g1, "nothing more is sent after an answer", ReachSpec{From: answer, Target: answer, Want: false})
	if fn := c.Fn(r5, g1); fn != nil {
		n := len(matches(fn, answer))
		c.R.Check(n >= 5, r5, g1, "answer sites enumerated", c.P.FuncPos(fn), fmt.Sprintf("found %d", n))
	}
	c.Fields(r5, g1, "ERROR answers", "wamp.Error", nil, map[string]string{"Request": `^\^reqID$`, "Type": `^68$`}, 3)
	c.Fields(r5, g1, "YIELD answer", "wamp.Yield", nil, map[string]string{"Request": `^\^reqID$`}, 1)
	c.Has(r5, hi, "reqID is the invocation's request id", `^store:&local:reqID=%msg\.Request$`, 1)
	goH := `^go:client\.\(\*Client\)\.runHandleInvocation\$1\(\)$`
	newQ := clause("no handler queue for this invocation yet", F(`^%c\.invHandlersQueues\[.*\],ok#1$`))
	c.Guard(r5, hi, "handler goroutine started", goH, 1, newQ)
	c.Guard(r5, hi, "queue created", `^mapupdate:%c\.invHandlersQueues\[`, 1, newQ, clause("request id is new", T(`^call:wamp\.\(\*Session\)\.UpdateLastRecvIDLocked\(%c\.sess, %msg\.Request\)$`)))
	c.Reach(r5, hi, "the goroutine is started only after the id was accepted as new", ReachSpec{Stop: `^call:wamp\.\(\*Session\)\.UpdateLastRecvIDLocked\(%c\.sess, %msg\.Request\)$`, Target: goH, Want: false})
	c.Reach(r5, hi, "an expired id is dropped", ReachSpec{FromEdge: &ir.Clause{Name: "old id", Edges: []ir.EdgeSpec{F(`^call:wamp\.\(\*Session\)\.UpdateLastRecvIDLocked\(%c\.sess, %msg\.Request\)$`)}}, Target: goH + `|^send:local:handlerQueue`, Want: false})
	he := cl + "runHandleEvent"
	c.Has(r5, he, "event handler called directly (in arrival order)", `^call:dyn:%c\.eventHandlers\[%msg\.Subscription\],ok#0\(%msg\)$`, 1)
	for _, f := range []string{he, rr, cl + "run"} {
		c.HasNot(r5, f, "no goroutine per event/message", `^go:`)
	}
	// INTERRUPT reaches the handler's context: the cancel function of every new invocation is recorded before its
	// goroutine starts, and the INTERRUPT handler calls the one recorded under the interrupted request
	c.Reach(r5, hi, "kill switch recorded for every new invocation before its goroutine starts", ReachSpec{Stop: `^mapupdate:%c\.invHandlerKill\[%msg\.Request\]=local:cancel$`, Target: goH, Want: false})
	hint := cl + "runHandleInterrupt"
	c.Has(r5, hint, "INTERRUPT cancels the context recorded for that request", `^call:dyn:%c\.invHandlerKill\[%msg\.Request\],ok#0\(\)$`, 1)
	ruleClientNumericTolerance(c, r5)
	ruleLastRecvID(c, r5) // "new invocation id" is decided against the highest id seen, which never moves backwards
	c.R.Floor(r5, 18)
}

func pubNoAck(api string) []ir.Clause {
	if api != "Publish" {
		return nil
	}
	return []ir.Clause{clause("publish without acknowledge", F(`^%options\["acknowledge"\]\.\(bool\),ok#0$`), F(`^phi\(.*acknowledge.*\)$`), T(`^\(%options == nil\)$`))}
}

// waiterForgotten: the waiter registered under the id is removed (and the receive loop released), either directly or
// through forgetReply, whose body is checked by ruleWaiterRemoved.
const waiterForgotten = `^(call|defer):client\.\(\*Client\)\.forgetReply\(%c, %id\)$`

// ruleWaiterRemoved: waiting removes the waiter on every exit, and removing it releases a receive loop that is
// handing over a reply to it.
func ruleWaiterRemoved(c *Ctx, r2 string) {
	for _, w := range []string{"waitForReply", "waitForReplyWithCancel"} {
		f := cl + w
		c.Has(r2, f, "waits on the waiter registered for the id", `^select\{recv:%c\.awaitingReply\[%id\],ok#0\.msgs;`, 1)
		closed := clause("waiter channel closed", F(`^select\{recv:%c\.awaitingReply\[%id\],ok#0\.msgs;.*\}#1$`))
		c.Reach(r2, f, "waiter removed on every exit (except when its channel was closed)", ReachSpec{
			From: `^select\{recv:%c\.awaitingReply\[%id\],ok#0\.msgs;recv:call:(time|invoke:context)`, Stop: waiterForgotten, Cut: []ir.Clause{closed}, Target: "EXIT", Want: false})
	}
	if ab := cl + "abandonCall"; c.P.Func(ab) != nil {
		c.Reach(r2, ab, "abandonCall releases the waiter on every path", ReachSpec{Stop: waiterForgotten, Target: "EXIT", Want: false})
	}
	c.Fields(r2, cl+"expectReply", "reply is handed over synchronously (the receive loop does not run ahead of the waiter)", "client.replyWaiter", nil, map[string]string{"msgs": `^makechan\(chan wamp\.Message,0\)$`, "gone": `^makechan\(chan struct\{\},0\)$`}, 1)
	fr := cl + "forgetReply"
	found := clause("an entry exists under the id", T(`^%c\.awaitingReply\[%id\],ok#1$`))
	c.Has(r2, fr, "forgetReply deletes the entry of the id", `^call:builtin:delete\(%c\.awaitingReply, %id\)$`, 1)
	c.Guard(r2, fr, "gone closed once: only together with the removal of the entry", `^call:builtin:close\(%c\.awaitingReply\[%id\],ok#0\.gone\)$`, 1, found)
	c.Before(r2, fr, "entry removed before gone is closed, in one lock region", `^call:builtin:delete\(%c\.awaitingReply, %id\)$`, `^call:builtin:close\(%c\.awaitingReply\[%id\],ok#0\.gone\)$`)
	c.Reach(r2, fr, "no unlock between lookup, delete and close", ReachSpec{From: `^call:wamp\.\(\*Session\)\.Lock\(%c\.sess\)$`, Stop: `^call:builtin:close\(`, Cut: []ir.Clause{clause("no entry", F(`^%c\.awaitingReply\[%id\],ok#1$`))}, Target: `^call:wamp\.\(\*Session\)\.Unlock\(`, Want: false})
	for _, fn := range c.P.FuncsIn("client") {
		for _, in := range ir.Instrs(fn) {
			if d := ir.InstrDesc(in); strings.HasPrefix(d, "call:builtin:close(") && strings.HasSuffix(d, ".gone)") {
				c.R.Check(ir.ShortName(fn) == fr, r2, ir.ShortName(fn), "a waiter's gone channel is closed only by forgetReply", c.pos(in), "a second close site can close the channel twice (panic) or release the receive loop for a waiter that is still waiting")
			}
		}
	}
}
