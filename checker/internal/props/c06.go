package props

import (
	"fmt"
	"sort"
	"strings"

	"golang.org/x/tools/go/ssa"

	"nxcheck/internal/ir"
)

func init() {
	register(&Check{
		ID: "C06",
		Decides: "send-after-close typestate for the four action channels: every send site belongs only to goroutine roles that are provably finished (joined) before the channel is closed, or sits inside the lock region in " +
			"which the closing flag is tested (router.post under stopLock, getAuthenticator and handleSession under closeLock); the close sites follow their joins (dealer: timers cancelled and waited; realm: the ordered " +
			"chain flag -> end sessions -> wait handlers -> end meta session -> wait meta procedures -> dealer -> broker -> close handed-over peers -> own channel; router: inside closeOnce, under the write lock, after the " +
			"closing action); session handlers are counted in under the close lock after the closed test and count out on their only exit; peers of shut-down sessions are closed after dealer and broker stopped; shutdown " +
			"GOODBYEs are non-blocking sends.",
		NotDecided: "that Close returns in bounded time, absence of leaked goroutines as a run-time fact, goroutines added outside the reviewed roles that do not touch an action channel.",
		Run: runC06,
	})
}

func runC06(c *Ctx) {
	const r1 = "C06.R1 no send on an action channel can follow its close"
	cf, roles, _ := computeRoles(c, r1)
	// allowed sender roles per closable channel, with the join that excludes them
	allowed := map[string]map[string]string{
		"broker": {
			"session-handler": "joined by waitHandlers.Wait() in realm.close before broker.close",
			"meta-handler":    "the meta session is ended and metaDone awaited before broker.close",
			"meta-proc":       "metaDone awaited before broker.close",
			"realm-run":       "only posts on behalf of session handlers (onLeave), all joined before broker.close",
		},
		"dealer": {
			"session-handler": "joined by waitHandlers.Wait() in realm.close before dealer.close",
			"meta-handler":    "the meta session is ended and metaDone awaited before dealer.close",
			"meta-proc":       "metaDone awaited before dealer.close",
			"realm-run":       "only posts on behalf of session handlers (onLeave), all joined before dealer.close",
			"call-timer":      "timers are cancelled and joined by dealer.timers.Wait() inside dealer.close",
			"router-run":      "realm construction (setMetaPeer) and realm.close itself run here",
			"api":             "realm construction / RemoveRealm -> realm.close itself",
			"attach":          "template realm construction (setMetaPeer) on first attach",
		},
		"realm": {
			"session-handler": "joined by waitHandlers.Wait() before the realm closes its channel (onJoin/onLeave)",
			"meta-proc":       "metaDone awaited before the realm closes its channel",
			"router-run":      "realm.close itself (Router.Close action)",
			"api":             "realm.close itself (RemoveRealm)",
			"attach":          "only under closeLock after the closed test (handleSession -> onJoin, getAuthenticator)",
		},
		"router": {
			"api":    "only through post() under stopLock, or Close's own action inside closeOnce before the close",
			"attach": "only through post() under stopLock",
		},
	}
	nSends := 0
	perChan := map[string]int{}
	for _, fn := range c.P.FuncsIn("router") {
		name := ir.ShortName(fn)
		for _, in := range ir.Instrs(fn) {
			snd, ok := in.(*ssa.Send)
			if !ok {
				continue
			}
			ld, ok := snd.Chan.(*ssa.UnOp)
			if !ok {
				continue
			}
			fa, ok := ld.X.(*ssa.FieldAddr)
			if !ok || !strings.HasSuffix(ir.Desc(fa), ".&actionChan") {
				continue
			}
			owner := ownerOf(fa.X.Type())
			nSends++
			perChan[owner]++
			// roles of the sending function
			var rs []string
			if o, ok := cf.conf[fn]; ok {
				rs = []string{o + "-run"}
			} else {
				for _, role := range sortedKeysF(roles) {
					if roles[role][fn] && !strings.HasSuffix(role, "-run") {
						rs = append(rs, role)
					}
				}
			}
			if len(rs) == 0 {
				c.R.Bad(r1, name, "send on "+owner+".actionChan from a reviewed goroutine role", c.pos(in),
					"this send is not reachable from any reviewed goroutine role (a new goroutine?): nothing joins it before "+owner+".actionChan is closed, so it can send on the closed channel")
				continue
			}
			sort.Strings(rs)
			for _, role := range rs {
				why, ok := allowed[owner][role]
				c.R.Check(ok, r1, name, "send on "+owner+".actionChan by role "+role+" is excluded by the close", c.pos(in),
					"role "+role+" is not joined before "+owner+".actionChan is closed"+why)
			}
		}
	}
	c.R.Check(nSends >= 44 && perChan["router"] >= 2 && perChan["realm"] >= 14 && perChan["dealer"] >= 16 && perChan["broker"] >= 11, r1, "router", "action-channel send sites enumerated", "-",
		fmt.Sprintf("found %d send sites %v; confirmed by reading: router 2, realm 15, dealer 17, broker 11", nSends, perChan))
	// lock-region lemma (c) sites
	post := "router.(*router).post"
	c.Guard(r1, post, "router action posted", `^send:%r\.actionChan<-%action$`, 1, clause("router not stopping", F(`^%r\.stopping$`)))
	c.Before(r1, post, "flag tested under the read lock", `^call:\(\*sync\.RWMutex\)\.RLock\(%r\.&stopLock\)$`, `^send:%r\.actionChan`)
	// the read lock is held until the send completed: released by a deferred call, or explicitly — then never between
	// taking it and the send
	if fn := c.Fn(r1, post); fn != nil {
		if len(matches(fn, `^defer:\(\*sync\.RWMutex\)\.RUnlock\(%r\.&stopLock\)$`)) > 0 {
			c.R.OK(r1, post, "read lock held until the send completed (deferred unlock)", c.P.FuncPos(fn), "")
		} else {
			c.Reach(r1, post, "read lock held until the send completed", ReachSpec{From: `^call:\(\*sync\.RWMutex\)\.RUnlock\(%r\.&stopLock\)$`, Target: `^send:%r\.actionChan<-`, Want: false})
		}
	}
	c.OnlyCalledFrom(r1, "router.post users", `^router\.\(\*router\)\.post$`, `^router\.\(\*router\)\.(AttachClient|AddRealm|RemoveRealm)$`, 3)
	ga := rlm + "getAuthenticator"
	c.Guard(r1, ga, "realm action posted during a handshake", `^send:%r\.actionChan<-`, 1, clause("realm not closed", F(`^%r\.closed$`)))
	c.Before(r1, ga, "closed tested under the close lock", `^call:\(\*sync\.Mutex\)\.Lock\(%r\.&closeLock\)$`, `^send:%r\.actionChan`)
	if fn := c.Fn(r1, ga); fn != nil {
		if len(matches(fn, `^defer:\(\*sync\.Mutex\)\.Unlock\(%r\.&closeLock\)$`)) > 0 {
			c.R.OK(r1, ga, "close lock held until the reply (deferred unlock)", c.P.FuncPos(fn), "")
		} else {
			c.Reach(r1, ga, "close lock held until the reply", ReachSpec{From: `^call:\(\*sync\.Mutex\)\.Unlock\(%r\.&closeLock\)$`, Target: `^send:%r\.actionChan<-|^val:<-`, Want: false})
		}
	}
	hs := rlm + "handleSession"
	join := `^call:router\.\(\*realm\)\.onJoin\(%r, %sess\)$`
	c.Guard(r1, hs, "session joins", join, 1, clause("realm not closed", F(`^%r\.closed$`)))
	c.Before(r1, hs, "join under the close lock", `^call:\(\*sync\.Mutex\)\.Lock\(%r\.&closeLock\)$`, join)
	c.Reach(r1, hs, "close lock not released before the join", ReachSpec{From: `^call:\(\*sync\.Mutex\)\.Unlock\(%r\.&closeLock\)$`, Target: join, Want: false})
	c.R.Floor(r1, 50)

	const r2 = "C06.R2 close sites follow their joins"
	dc := dlr + "close"
	ruleTimersStoppedOnRemoval(c, r2)
	ruleOneTimerPerCall(c, r2)
	ruleFailCall(c, r2) // a call the dealer fails itself stops its timer too (else dealer.close waits for it)
	c.Before(r2, dc, "pending call timers cancelled before the close", `^send:%d\.actionChan<-closure:router\.\(\*dealer\)\.close\$1$`, `^call:builtin:close\(%d\.actionChan\)$`)
	c.Before(r2, dc, "timer goroutines joined before the close", `^call:\(\*sync\.WaitGroup\)\.Wait\(%d\.&timers\)$`, `^call:builtin:close\(%d\.actionChan\)$`)
	c.Before(r2, dc, "timers cancelled before waiting for them", `^send:%d\.actionChan<-`, `^call:\(\*sync\.WaitGroup\)\.Wait\(%d\.&timers\)$`)
	c.Has(r2, dc+"$1", "cancel-all walks the pending invocations", `^call:dyn:range\(\^d\.invocations\)#v\.timerCancel\(\)$`, 1)
	c.Reach(r2, dc, "dealer.close waits for the loop to stop", ReachSpec{Stop: `^val:<-%d\.stopped$`, Target: "EXIT", Want: false})
	sc := dlr + "syncCall"
	c.Before(r2, sc, "timer goroutine counted before it starts", `^call:\(\*sync\.WaitGroup\)\.Add\(%d\.&timers, 1\)$`, `^go:router\.\(\*dealer\)\.syncCall\$1\(\)$`)
	if fn := c.Fn(r2, sc+"$1"); fn != nil {
		first := ""
		for _, in := range ir.Instrs(fn) {
			if _, ok := in.(*ssa.Defer); ok {
				first = ir.InstrDesc(in)
				break
			}
		}
		c.R.Check(re(`^defer:\(\*sync\.WaitGroup\)\.Done\(\^d\.&timers\)$`).MatchString(first), r2, sc+"$1", "timer goroutine counts out on every exit (deferred Done)", c.P.FuncPos(fn), "first deferred call is "+first)
	}
	bc := brk + "close"
	c.Reach(r2, bc, "broker.close waits for the loop to stop", ReachSpec{Stop: `^val:<-%b\.stopped$`, Target: "EXIT", Want: false})
	for _, o := range []string{"broker", "dealer", "realm", "router"} {
		run := "router.(*" + o + ").run"
		c.Has(r2, run, "loop ends when its channel is closed", `^val:range\(%[a-z]\.actionChan\)$|^val:<-%[a-z]\.actionChan,ok$`, 1)
		c.Reach(r2, run, "loop signals stopped when it ends", ReachSpec{Stop: `^call:builtin:close\(%[a-z]\.stopped\)$`, Target: "EXIT", Want: false})
	}
	rc := "router.(*router).Close$1"
	c.Before(r2, rc, "realms closed by the closing action first", `^send:\^r\.actionChan<-closure:router\.\(\*router\)\.Close\$1\$1$`, `^call:builtin:close\(\^r\.actionChan\)$`)
	c.Before(r2, rc, "write lock taken before the close", `^call:\(\*sync\.RWMutex\)\.Lock\(\^r\.&stopLock\)$`, `^call:builtin:close\(\^r\.actionChan\)$`)
	c.Before(r2, rc, "stopping flag set before the close", `^store:\^r\.&stopping=true$`, `^call:builtin:close\(\^r\.actionChan\)$`)
	c.Before(r2, rc, "flag set under the write lock", `^call:\(\*sync\.RWMutex\)\.Lock\(\^r\.&stopLock\)$`, `^store:\^r\.&stopping=true$`)
	c.Reach(r2, rc, "write lock released only after the close", ReachSpec{From: `^call:\(\*sync\.RWMutex\)\.Unlock\(\^r\.&stopLock\)$`, Target: `^call:builtin:close\(\^r\.actionChan\)$|^store:\^r\.&stopping`, Want: false})
	c.Has(r2, "router.(*router).Close", "closing runs once", `^call:\(\*sync\.Once\)\.Do\(%r\.&closeOnce, closure:router\.\(\*router\)\.Close\$1\)$`, 1)
	c.OnlyCalledFrom(r2, "router closing code", `^router\.\(\*router\)\.Close\$1$`, `^$`, 0)
	c.Has(r2, rc+"$1", "closing action refuses new attachments first", `^store:\^r\.&closed=true$`, 1)
	c.Before(r2, rc+"$1", "closed flag before closing realms", `^store:\^r\.&closed=true$`, `^call:router\.\(\*realm\)\.close\(`)
	// every close of an action channel is one of the reviewed sites
	nClose := 0
	for _, fn := range c.P.FuncsIn("router") {
		for _, in := range matches(fn, `^call:builtin:close\(.*\.actionChan\)$`) {
			nClose++
			name := ir.ShortName(fn)
			ok := name == dc || name == bc || name == rlm+"close" || name == rc
			c.R.Check(ok, r2, name, "action channel closed at a reviewed site", c.pos(in), "an action channel is closed outside dealer.close, broker.close, realm.close and Router.Close")
		}
	}
	c.R.Check(nClose == 4, r2, "router", "four action-channel close sites", "-", fmt.Sprintf("found %d", nClose))
	c.R.Floor(r2, 28)

	const r8 = "C06.R8 no realm is created on a router that has been closed"
	// Close shuts all realms down in one action; a realm created by a later action would never be closed and its
	// goroutines would stay behind. Every creation of a realm outside NewRouter is an action guarded by the closed flag.
	nAdd := 0
	for _, s := range c.CallSites(`^router\.\(\*router\)\.addRealm$`) {
		caller := ir.ShortName(s.Caller)
		if caller == "router.NewRouter" {
			continue // construction: the router goroutine has not been handed out yet
		}
		nAdd++
		ok, w := ir.GuardedBy(s.Caller, s.In, clause("router not closed", F(`^\^r\.closed$`)))
		c.R.Check(ok && w.CutCount > 0, r8, caller, "realm created only while the router is open", c.pos(s.In),
			"addRealm is called in "+caller+" without testing the closed flag in the same action: a realm created after Close has shut the realms down is never closed")
	}
	c.R.Check(nAdd >= 2, r8, "router", "run-time realm creations enumerated", "-", fmt.Sprintf("found %d", nAdd))
	c.Has(r8, "router.(*router).Close$1$1", "Close sets the closed flag in the action that shuts the realms down", `^store:\^r\.&closed=true$`, 1)
	c.R.Floor(r8, 4)

	const r7 = "C06.R7 stopping the meta session does not depend on a message getting through"
	ruleMetaShutdownJoin(c, r7)
	ruleCompletionSignalled(c, r7)
	c.R.Floor(r7, 7)

	const r3 = "C06.R3 ordered realm shutdown"
	cl := rlm + "close"
	chain := []struct{ label, re string }{
		{"close lock", `^call:\(\*sync\.Mutex\)\.Lock\(%r\.&closeLock\)$`},
		{"closed flag", `^store:%r\.&closed=true$`},
		{"end all sessions", `^send:%r\.actionChan<-closure:router\.\(\*realm\)\.close\$1$`},
		{"wait for session handlers", `^call:\(\*sync\.WaitGroup\)\.Wait\(%r\.&waitHandlers\)$`},
		{"end the meta session", `^call:wamp\.\(\*Session\)\.EndRecv\(%r\.metaSess, \*g:router\.shutdownGoodbye\)$`},
		{"wait for the meta procedure handler", `^val:<-%r\.metaDone$`},
		{"stop the dealer", `^call:router\.\(\*dealer\)\.close\(%r\.dealer\)$`},
		{"stop the broker", `^call:router\.\(\*broker\)\.close\(%r\.broker\)$`},
		{"close peers of shut-down sessions", `^call:builtin:len\(%r\.closeOnStop\)$`},
		{"close own action channel", `^call:builtin:close\(%r\.actionChan\)$`},
		{"wait for own loop", `^val:<-%r\.stopped$`},
	}
	for i := 0; i+1 < len(chain); i++ {
		c.Before(r3, cl, chain[i].label+" precedes "+chain[i+1].label, chain[i].re, chain[i+1].re)
	}
	c.Reach(r3, cl, "an effective close runs the whole chain", ReachSpec{From: `^store:%r\.&closed=true$`, Stop: `^val:<-%r\.stopped$`, Target: "EXIT", Want: false})
	c.Guard(r3, cl, "second close is a no-op", `^store:%r\.&closed=true$`, 1, clause("not yet closed", F(`^%r\.closed$`)))
	c.Has(r3, cl, "close lock held to the end", `^defer:\(\*sync\.Mutex\)\.Unlock\(%r\.&closeLock\)$`, 1)
	c.Has(r3, cl+"$1", "every attached session is told to end with the shutdown GOODBYE", `^call:wamp\.\(\*Session\)\.EndRecv\(range\(\^r\.clients\)#v, \*g:router\.shutdownGoodbye\)$`, 1)
	c.R.Floor(r3, 14)

	const r4 = "C06.R4 session handlers are counted in and out"
	c.Guard(r4, hs, "handler counted in", `^call:\(\*sync\.WaitGroup\)\.Add\(%r\.&waitHandlers, 1\)$`, 1, clause("realm not closed", F(`^%r\.closed$`)))
	c.Before(r4, hs, "counted in under the close lock", `^call:\(\*sync\.Mutex\)\.Lock\(%r\.&closeLock\)$`, `^call:\(\*sync\.WaitGroup\)\.Add\(`)
	c.Reach(r4, hs, "close lock not released before counting in", ReachSpec{From: `^call:\(\*sync\.Mutex\)\.Unlock\(%r\.&closeLock\)$`, Target: `^call:\(\*sync\.WaitGroup\)\.Add\(`, Want: false})
	c.Before(r4, hs, "counted in before the handler starts", `^call:\(\*sync\.WaitGroup\)\.Add\(`, `^go:router\.\(\*realm\)\.handleSession\$1\(\)$`)
	c.Reach(r4, hs, "every exit released the close lock", ReachSpec{Stop: `^call:\(\*sync\.Mutex\)\.Unlock\(%r\.&closeLock\)$`, Target: "EXIT", Want: false})
	c.Guard(r4, hs, "a closed realm refuses the session", `^return:call:errors\.New\("realm closed"\)$`, 1, clause("closed", T(`^%r\.closed$`)))
	c.Reach(r4, rlm+"handleSession$1", "handler counts out on every exit", ReachSpec{Stop: `^call:\(\*sync\.WaitGroup\)\.Done\(\^r\.&waitHandlers\)$`, Target: "EXIT", Want: false})
	him := rlm + "handleInboundMessages"
	stopArm := clause("session told to stop", T(`^\(select\{recv:.*RecvDone\(%sess\)\}#0 == 1\)$`))
	c.Reach(r4, him, "nothing is routed once the session was told to stop", ReachSpec{FromEdge: &stopArm, Target: `^call:router\.\(\*(broker|dealer)\)\.`, Want: false})
	c.Reach(r4, him, "a stopped session's handler returns", ReachSpec{FromEdge: &stopArm, Stop: `^return:`, Target: `^select\{recv:`, Want: false})
	ruleShutdownFlag(c, r4)
	c.R.Floor(r4, 10)

	const r5 = "C06.R5 peers closed after removal or after dealer/broker stopped"
	ruleSessionRemoval(c, r5)
	c.R.Floor(r5, 14)

	const r6 = "C06.R6 shutdown never blocks on a client"
	ruleNonBlocking(c, r6)
	ruleRecvHandOver(c, r6) // a closed rawsocket peer's receive goroutine ends
	c.R.Floor(r6, 28)
}

// ruleMetaShutdownJoin: stopping the meta session does not depend on a message getting through. The meta procedure
// handler never blocks on the meta peer alone (the stop signal of the meta session is an alternative of every send
// and receive), it returns on stop only after the meta session's handler has exited, and that exit is signalled by a
// channel closed on every exit of the handler goroutine.
func ruleMetaShutdownJoin(c *Ctx, rule string) {
	mh := rlm + "metaProcedureHandler"
	stopAlt := `recv:call:wamp\.\(\*Session\)\.RecvDone\(%r\.metaSess\)`
	if fn := c.Fn(rule, mh); fn != nil {
		n := 0
		for _, in := range ir.Instrs(fn) {
			d := ir.InstrDesc(in)
			switch {
			case strings.HasPrefix(d, "send:call:invoke:wamp.Peer.Send[%r.metaPeer]"):
				n++
				c.R.Bad(rule, mh, "send to the meta session can be abandoned when it is told to stop", c.pos(in),
					"blocking send to the meta session without alternative: once the meta session's handler has exited at shutdown nobody receives, the procedure handler never finishes and realm.close waits for it forever")
			case strings.HasPrefix(d, "select{send:call:invoke:wamp.Peer.Send[%r.metaPeer]"):
				n++
				c.R.Check(re(stopAlt).MatchString(d), rule, mh, "send to the meta session can be abandoned when it is told to stop", c.pos(in), "the select has no stop alternative: "+d)
			case strings.HasPrefix(d, "val:<-call:invoke:wamp.Peer.Recv[%r.metaPeer]") || strings.HasPrefix(d, "val:next:range(call:invoke:wamp.Peer.Recv[%r.metaPeer]"):
				n++
				c.R.Bad(rule, mh, "receive from the meta peer can be abandoned when the meta session is told to stop", c.pos(in),
					"blocking receive from the meta peer without alternative: the handler leaves only when a GOODBYE gets through the queue, which the stopping meta session sends without blocking (it is dropped when the queue is full)")
			case strings.HasPrefix(d, "select{recv:call:invoke:wamp.Peer.Recv[%r.metaPeer]"):
				n++
				c.R.Check(re(stopAlt).MatchString(d), rule, mh, "receive from the meta peer can be abandoned when the meta session is told to stop", c.pos(in), "the select has no stop alternative: "+d)
			}
		}
		c.R.Check(n >= 2, rule, mh, "sends and receives on the meta peer enumerated", c.P.FuncPos(fn), fmt.Sprintf("found %d", n))
	}
	stopped := clause("meta session told to stop", T(`^\(select\{recv:call:invoke:wamp\.Peer\.Recv\[%r\.metaPeer\]\(\);`+stopAlt+`\}#0 == 1\)$`))
	c.Reach(rule, mh, "on stop the procedure handler returns only after the meta session's handler exited", ReachSpec{FromEdge: &stopped, Stop: `^val:<-%r\.metaSessDone$`, Target: "EXIT", Want: false})
	c.Has(rule, rlm+"createMetaSession$1", "the meta session's handler signals its exit on every path", `^defer:builtin:close\(\^r\.metaSessDone\)$`, 1)
	c.Before(rule, rlm+"createMetaSession$1", "the exit signal is registered before the handler runs", `^defer:builtin:close\(\^r\.metaSessDone\)$`, `^call:router\.\(\*realm\)\.handleInboundMessages\(`)
	c.Has(rule, mh, "the procedure handler signals its own exit on every path", `^defer:builtin:close\(%r\.metaDone\)$`, 1)
}

// ruleShutdownFlag: the session handler reports "realm shutdown" (which makes the leave action skip the removal from
// dealer and broker and hand the peer to realm.close) only for the router's own shutdown goodbye or a closed
// transport — compared by identity, never by a reason a client or a meta-API caller can choose.
func ruleShutdownFlag(c *Ctx, r4 string) {
	him := rlm + "handleInboundMessages"
	c.Guard(r4, him, "shutdown reported to the handler", `^store:new\(bool\)=true$`, 1, clause("goodbye is the shutdown (or no) goodbye",
		T(`^\(\*g:router\.shutdownGoodbye == call:wamp\.\(\*Session\)\.Goodbye\(%sess\)\)$`), T(`^\(\*g:wamp\.NoGoodbye == call:wamp\.\(\*Session\)\.Goodbye\(%sess\)\)$`)))
}
