package props

import (
	"fmt"
	"go/types"
	"strings"

	"golang.org/x/tools/go/ssa"

	"nxcheck/internal/ir"
)

func init() {
	register(&Check{
		ID: "C11",
		Decides: "that no state is shared between realms by construction: from the types realm, broker, dealer (following fields, elements, keys) neither the router nor the realm table nor another owner's type is reachable " +
			"(so routing code cannot even name another realm); broker, dealer, realm, the meta session and its peers are created once per addRealm call and flow only into that realm; no package-level variable of the " +
			"library packages that can hold mutable routing state is written after initialisation; containers taken from a RealmConfig are copied, not aliased; the realm table is touched only by the router goroutine and a " +
			"session is handed to the realm looked up under HELLO.Realm.",
		NotDecided: "non-interference as a relation between runs, interference through shared process resources (CPU, memory, the logger), user-supplied Authorizer/filter objects shared between realm configurations by the embedding application.",
		Run: runC11,
	})
}

func runC11(c *Ctx) {
	pkg := c.P.ByRel["router"]
	const r1 = "C11.R1 routing types cannot reach the router or the realm table"
	lookup := func(n string) types.Type {
		if o := pkg.Types.Scope().Lookup(n); o != nil {
			return o.Type()
		}
		return nil
	}
	forbidden := map[string]bool{"router": true}
	for _, start := range []string{"realm", "broker", "dealer", "subscription", "registration", "invocation"} {
		t := lookup(start)
		if t == nil {
			c.R.Unknown(r1, "router."+start, "type", "-", "type not found")
			continue
		}
		path, bad := reachType(t, func(x types.Type) bool {
			if n, ok := x.(*types.Named); ok && n.Obj().Pkg() == pkg.Types {
				if forbidden[n.Obj().Name()] {
					return true
				}
				// broker/dealer must not reach realm (and through it other owners)
				if (start == "broker" || start == "dealer" || start == "subscription" || start == "registration" || start == "invocation") && (n.Obj().Name() == "realm") {
					return true
				}
				if start == "broker" && n.Obj().Name() == "dealer" || start == "dealer" && n.Obj().Name() == "broker" {
					return true
				}
			}
			if m, ok := x.(*types.Map); ok {
				if p, ok := m.Elem().(*types.Pointer); ok {
					if n, ok := p.Elem().(*types.Named); ok && n.Obj().Name() == "realm" && n.Obj().Pkg() == pkg.Types {
						return true
					}
				}
			}
			return false
		})
		c.R.Check(!bad, r1, "router."+start, "type graph of "+start+" stays inside its realm", c.P.Pos(pkg.Types.Scope().Lookup(start).Pos()), "reaches a cross-realm type via "+strings.Join(path, " -> "))
	}
	c.R.Floor(r1, 6)

	const r2 = "C11.R2 one broker, dealer, realm and meta session per addRealm"
	ar := "router.(*router).addRealm"
	c.OnlyCalledFrom(r2, "newBroker", `^router\.newBroker$`, `^router\.\(\*router\)\.addRealm$`, 1)
	c.OnlyCalledFrom(r2, "newDealer", `^router\.newDealer$`, `^router\.\(\*router\)\.addRealm$`, 1)
	c.OnlyCalledFrom(r2, "newRealm", `^router\.newRealm$`, `^router\.\(\*router\)\.addRealm$`, 1)
	if fn := c.Fn(r2, ar); fn != nil {
		for _, ctor := range []string{"newBroker", "newDealer", "newRealm"} {
			n := len(matches(fn, `^call:router\.`+ctor+`\(`))
			c.R.Check(n == 1, r2, ar, "exactly one "+ctor+" call per realm", c.P.FuncPos(fn), fmt.Sprintf("found %d calls", n))
		}
	}
	c.Has(r2, ar, "the new broker and dealer go into the new realm", `^call:router\.newRealm\(%config, call:router\.newBroker\(.*\)#0, call:router\.newDealer\(.*\), `, 1)
	c.Has(r2, ar, "realm registered under its own URI", `^mapupdate:%r\.realms\[%config\.URI\]=call:router\.newRealm\(`, 1)
	c.Fields(r2, "router.newRealm", "realm literal", "router.realm", nil, map[string]string{
		"broker": `^%broker$`, "dealer": `^%dealer$`, "clients": `^makemap\(`, "testaments": `^makemap\(`, "actionChan": `^makechan\(`, "metaIDGen": `^new\(wamp\.IDGen\)$`,
	}, 1)
	for _, f := range []string{"router.newBroker", "router.newDealer"} {
		typ := strings.TrimPrefix(strings.ToLower(strings.TrimPrefix(f, "router.new")), "")
		c.Fields(r2, f, typ+" literal", "router."+typ, nil, map[string]string{"actionChan": `^makechan\(`, "idGen": `^new\(wamp\.IDGen\)$`}, 1)
	}
	cms := rlm + "createMetaSession"
	c.Has(r2, cms, "meta peers created for this realm", `^call:transport\.LinkedPeers\(\)$`, 1)
	c.OnlyCalledFrom(r2, "createMetaSession", `^router\.\(\*realm\)\.createMetaSession$`, `^router\.\(\*realm\)\.setupMetaProcedures$`, 1)
	c.OnlyCalledFrom(r2, "setupMetaProcedures", `^router\.\(\*realm\)\.setupMetaProcedures$`, `^router\.newRealm$`, 1)
	c.Has(r2, cms, "dealer of this realm publishes through this realm's meta peer", `^call:router\.\(\*dealer\)\.setMetaPeer\(%r\.dealer, call:transport\.LinkedPeers\(\)#0\)$`, 1)
	// a realm that could not be created never enters the realm table (a nil entry would crash the router, and with it
	// every other realm, on the next HELLO, RemoveRealm or Close naming it)
	c.Guard(r2, ar, "realm entered in the table", `^mapupdate:%r\.realms\[%config\.URI\]=`, 1, clause("newRealm succeeded", T(`^\(call:router\.newRealm\(.*\)#1 == nil\)$`)))
	ruleRealmWiring(c, r2)
	c.R.Floor(r2, 21)

	const r3 = "C11.R3 no package-level routing state"
	nGlob, nWrites := 0, 0
	for _, rel := range []string{"router", "router/auth", "wamp", "transport", "transport/serialize", "wamp/crsign"} {
		sp := c.P.SPkg[rel]
		if sp == nil {
			continue
		}
		for _, m := range sp.Members {
			if g, ok := m.(*ssa.Global); ok {
				nGlob++
				_ = g
			}
		}
	}
	for _, fn := range c.P.NexusFuncs {
		name := ir.ShortName(fn)
		if !inPkgs(name, routerSidePkgs) || fn.Name() == "init" || strings.HasPrefix(fn.Name(), "init#") {
			continue
		}
		for _, in := range ir.Instrs(fn) {
			var target ssa.Value
			what := ""
			switch x := in.(type) {
			case *ssa.Store:
				target, what = rootGlobal(x.Addr), "store"
			case *ssa.MapUpdate:
				target, what = rootGlobal(x.Map), "map update"
			case *ssa.Call:
				if b, ok := x.Call.Value.(*ssa.Builtin); ok && b.Name() == "delete" {
					target, what = rootGlobal(x.Call.Args[0]), "map delete"
				}
			}
			if g, ok := target.(*ssa.Global); ok {
				nWrites++
				// handles initialised by exported Init functions of the serializers are configuration, not routing state
				okW := strings.HasPrefix(name, "transport/serialize.Init") || strings.HasPrefix(name, "transport/serialize.(*") && false
				c.R.Check(okW, r3, name, what+" to package-level variable "+g.Name(), c.pos(in),
					"package-level variable "+g.Name()+" is written at run time: state shared by every realm (and every router) in the process")
			}
		}
	}
	c.R.Check(nGlob >= 10, r3, "library packages", "package-level variables enumerated", "-", fmt.Sprintf("found %d globals, %d run-time writes", nGlob, nWrites))
	c.R.Floor(r3, 1)

	const r4 = "C11.R4 configuration containers are copied into the realm"
	nr := "router.newRealm"
	if fn := c.Fn(r4, nr); fn != nil {
		n := 0
		for _, in := range ir.Instrs(fn) {
			st, ok := in.(*ssa.Store)
			if !ok {
				continue
			}
			fa, ok := st.Addr.(*ssa.FieldAddr)
			if !ok || ownerOf(fa.X.Type()) != "realm" {
				continue
			}
			switch st.Val.Type().Underlying().(type) {
			case *types.Slice, *types.Map:
			default:
				continue
			}
			n++
			d := ir.Desc(st.Val)
			c.R.Check(!strings.HasPrefix(d, "%config."), r4, nr, "realm."+fieldNameOf(fa.X.Type(), fa.Field)+" does not alias the configuration", c.pos(in),
				"the realm keeps "+d+" itself: a configuration slice/map reused for another realm (template, AddRealm) changes this realm's behaviour")
		}
		c.R.Check(n >= 3, r4, nr, "container fields of the realm enumerated", c.P.FuncPos(fn), fmt.Sprintf("found %d", n))
	}
	c.Has(r4, nr, "included session details are cloned", `^store:new\(router\.realm\)\.&metaIncDetails=call:slices\.Clone\(%config\.MetaIncludeSessionDetails\)$`, 1)
	c.R.Floor(r4, 4)

	const r6 = "C11.R6 no dict shared between realms is ever written (goodbyes, details, options)"
	ruleDictWrites(c, r6)
	c.R.Floor(r6, 30)

	const r7 = "C11.R7 one realm's shutdown does not occupy the router goroutine that serves the other realms"
	// realm.close blocks until every session handler of that realm has ended; on the router goroutine it would stall
	// attaches to and administration of every other realm (the router's own Close, which stops everything, excepted)
	c.OnlyCalledFrom(r7, "realm.close", `^router\.\(\*realm\)\.close$`, `^router\.\(\*router\)\.(RemoveRealm|Close\$1\$1)$`, 2)
	c.R.Floor(r7, 2)

	const r5 = "C11.R5 a session is attached to the realm named in its HELLO"
	a2 := "router.(*router).AttachClient$1"
	c.AllMatch(r5, a2, "realm chosen by HELLO.Realm or created for it", `^store:\^realm=`, `^store:\^realm=(\^r\.realms\[\^hello\.Realm\],ok#0|call:router\.\(\*router\)\.addRealm\(\^r, &local:config\)#0)$`, 2)
	c.Has(r5, a2, "template realm created under the requested URI", `^store:&local:config\.&URI=\^hello\.Realm$`, 1)
	c.R.Floor(r5, 3)
}

// rootGlobal follows loads/field addresses/index addresses back to a global.
func rootGlobal(v ssa.Value) ssa.Value {
	for i := 0; i < 8; i++ {
		switch x := v.(type) {
		case *ssa.Global:
			return x
		case *ssa.UnOp:
			v = x.X
		case *ssa.FieldAddr:
			v = x.X
		case *ssa.IndexAddr:
			v = x.X
		case *ssa.Field:
			v = x.X
		default:
			return nil
		}
	}
	return nil
}

// reachType walks the type graph from t and reports the first type for which
// bad returns true, with the path.
func reachType(t types.Type, bad func(types.Type) bool) ([]string, bool) {
	seen := map[types.Type]bool{}
	var path []string
	var walk func(t types.Type, first bool) bool
	walk = func(t types.Type, first bool) bool {
		if seen[t] {
			return false
		}
		seen[t] = true
		path = append(path, ir.TypeStr(t))
		if !first && bad(t) {
			return true
		}
		var kids []types.Type
		switch x := t.(type) {
		case *types.Named:
			if x.Obj().Pkg() == nil || !strings.HasPrefix(x.Obj().Pkg().Path(), ir.ModPath) {
				path = path[:len(path)-1]
				return false // foreign named types (sync.Mutex, stdlog) carry no nexus state
			}
			kids = append(kids, x.Underlying())
		case *types.Pointer:
			kids = append(kids, x.Elem())
		case *types.Slice:
			kids = append(kids, x.Elem())
		case *types.Array:
			kids = append(kids, x.Elem())
		case *types.Chan:
			kids = append(kids, x.Elem())
		case *types.Map:
			kids = append(kids, x.Key(), x.Elem())
		case *types.Struct:
			for i := 0; i < x.NumFields(); i++ {
				kids = append(kids, x.Field(i).Type())
			}
		case *types.Signature:
			// function-typed fields: parameters may mention types but hold no state
		}
		for _, k := range kids {
			if walk(k, false) {
				return true
			}
		}
		path = path[:len(path)-1]
		return false
	}
	ok := walk(t, true)
	return path, ok
}
