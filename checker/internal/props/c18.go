package props

import (
	"fmt"
	"go/constant"
	"go/types"
	"sort"
	"strings"

	"golang.org/x/tools/go/ssa"

	"nxcheck/internal/ir"
)

func init() {
	register(&Check{
		ID: "C18",
		Decides: "table agreement between the meta API constants, their registration and their handlers: every MetaProc* constant is registered exactly once, session procedures are served by the realm, registration procedures by the dealer, " +
			"subscription procedures by the broker, kill/modify procedures only under their enable flags, and every constant is a URI of the WAMP meta API (external table); handlers read owner state only inside closures " +
			"confined to the owner's goroutine and use the routing code's own match functions; each handler family answers only its documented error URIs with the invocation's type and request id; meta events are emitted under " +
			"the right conditions and order (on_create only on creation and before on_subscribe/on_register, on_delete only when the last member left and after on_unsubscribe/on_unregister, nothing on an error path, not echoed " +
			"to the causing session); kill procedures never end the caller or the meta session; testaments are flushed exactly for the requested scope.",
		NotDecided: "consistency of answers with the state 'as of all completed requests' (a linearisation claim), equality of counts and list lengths at run time, payload of meta events beyond their topics and id arguments.",
		Run: runC18,
	})
}

// WAMP meta API procedure URIs (wamp-proto advanced profile: session, registration, subscription meta API, testaments, event history)
// plus the two documented nexus extensions.
var wampMetaProcs = map[string]bool{
	"wamp.session.count": true, "wamp.session.list": true, "wamp.session.get": true,
	"wamp.session.kill": true, "wamp.session.kill_by_authid": true, "wamp.session.kill_by_authrole": true, "wamp.session.kill_all": true,
	"wamp.session.add_testament": true, "wamp.session.flush_testaments": true,
	"wamp.registration.list": true, "wamp.registration.lookup": true, "wamp.registration.match": true, "wamp.registration.get": true,
	"wamp.registration.list_callees": true, "wamp.registration.count_callees": true,
	"wamp.subscription.list": true, "wamp.subscription.lookup": true, "wamp.subscription.match": true, "wamp.subscription.get": true,
	"wamp.subscription.list_subscribers": true, "wamp.subscription.count_subscribers": true, "wamp.subscription.get_events": true,
	"wamp.session.modify_details": true, // nexus extension (documented, off by default)
}

func runC18(c *Ctx) {
	const r1 = "C18.R1 meta procedure constants, registration and handlers agree"
	wp := c.P.ByRel["wamp"]
	consts := map[string]string{} // name -> value
	for _, nm := range wp.Types.Scope().Names() {
		if k, ok := wp.Types.Scope().Lookup(nm).(*types.Const); ok && strings.HasPrefix(nm, "MetaProc") && k.Val().Kind() == constant.String {
			consts[nm] = constant.StringVal(k.Val())
		}
	}
	sm := rlm + "setupMetaProcedures"
	fn := c.Fn(r1, sm)
	registered := map[string][]ssa.Instruction{}
	handlerOf := map[string]*ssa.Function{}
	if fn != nil {
		for _, in := range ir.Instrs(fn) {
			call, ok := in.(*ssa.Call)
			if !ok || call.Call.StaticCallee() == nil || ir.ShortName(call.Call.StaticCallee()) != rlm+"registerMetaProcedure" {
				continue
			}
			uri := strings.Trim(ir.Desc(call.Call.Args[1]), `"`)
			registered[uri] = append(registered[uri], in)
			if mc, ok := call.Call.Args[2].(*ssa.MakeClosure); ok {
				handlerOf[uri] = boundTarget(mc.Fn.(*ssa.Function))
			}
		}
	}
	for _, nm := range sortedKeys(consts) {
		uri := consts[nm]
		c.R.Check(len(registered[uri]) == 1, r1, "wamp."+nm, "registered exactly once", c.P.Pos(wp.Types.Scope().Lookup(nm).Pos()),
			fmt.Sprintf("constant %s = %q is registered %d times in setupMetaProcedures", nm, uri, len(registered[uri])))
		c.R.Check(wampMetaProcs[uri], r1, "wamp."+nm, "value is a WAMP meta API URI", c.P.Pos(wp.Types.Scope().Lookup(nm).Pos()),
			fmt.Sprintf("%s = %q is not a procedure URI of the WAMP meta API: clients calling the standard URI get no_such_procedure", nm, uri))
		h := handlerOf[uri]
		if h == nil {
			c.R.Unknown(r1, "wamp."+nm, "handler resolved", "-", "could not resolve the handler function registered for "+uri)
			continue
		}
		want := map[string]string{"wamp.session.": "(*realm)", "wamp.registration.": "(*dealer)", "wamp.subscription.": "(*broker)"}
		for pfx, recv := range want {
			if strings.HasPrefix(uri, pfx) {
				c.R.Check(strings.Contains(ir.ShortName(h), recv), r1, "wamp."+nm, "served by the component that owns the state", c.pos(registered[uri][0]),
					uri+" is served by "+ir.ShortName(h)+", expected a method of "+recv)
			}
		}
	}
	// every registration uses a constant
	vals := map[string]bool{}
	for _, v := range consts {
		vals[v] = true
	}
	for uri, ins := range registered {
		c.R.Check(vals[uri], r1, sm, "registered URI "+uri+" is a MetaProc constant", c.pos(ins[0]), "registered URI has no MetaProc constant")
	}
	c.R.Check(len(consts) >= 22 && len(registered) >= 22, r1, sm, "constants and registrations enumerated", "-", fmt.Sprintf("%d constants, %d registrations", len(consts), len(registered)))
	kill := clause("EnableMetaKill", T(`^%r\.enableMetaKill$`))
	c.Guard(r1, sm, "kill procedures registered", `^call:router\.\(\*realm\)\.registerMetaProcedure\(%r, "wamp\.session\.kill`, 4, kill)
	c.Guard(r1, sm, "modify procedure registered", `^call:router\.\(\*realm\)\.registerMetaProcedure\(%r, "wamp\.session\.modify_details"`, 1, clause("EnableMetaModify", T(`^%r\.enableMetaModify$`)))
	c.Fields(r1, "router.newRealm", "enable flags come from the realm configuration", "router.realm", nil, map[string]string{
		"enableMetaKill": `^%config\.EnableMetaKill$`, "enableMetaModify": `^%config\.EnableMetaModify$`}, 1)
	c.R.Floor(r1, 70)

	const r2 = "C18.R2 handlers read owner state on the owner's goroutine and reuse the routing match code"
	ruleConfinement(c, r2)
	c.Has(r2, dlr+"regMatch$1", "registration match uses the routing lookup", `^call:router\.\(\*dealer\)\.syncMatchProcedure\(\^d, \^procedure\)$`, 1)
	sm1 := brk + "subMatch$1"
	c.Guard(r2, sm1, "exact match", `^store:newarr\(\[1\]wamp\.ID\)\.&\[0\]=\^b\.topicSubscription\[\^topic\],ok#0\.id$`, 1, clause("exact hit", T(`^\^b\.topicSubscription\[\^topic\],ok#1$`)))
	c.Guard(r2, sm1, "prefix match", `^store:newarr\(\[1\]wamp\.ID\)\.&\[0\]=range\(\^b\.pfxTopicSubscription\)#v\.id$`, 1, clause("topic has the key as prefix", T(`^call:wamp\.\(URI\)\.PrefixMatch\(\^topic, range\(\^b\.pfxTopicSubscription\)#k\)$`)))
	c.Guard(r2, sm1, "wildcard match", `^store:newarr\(\[1\]wamp\.ID\)\.&\[0\]=range\(\^b\.wcTopicSubscription\)#v\.id$`, 1, clause("topic matches the key as wildcard", T(`^call:wamp\.\(URI\)\.WildcardMatch\(\^topic, range\(\^b\.wcTopicSubscription\)#k\)$`)))
	for _, lk := range []struct{ fn, recv, tbl string }{{brk + "subLookup$1", `\^b`, "opicSubscription"}, {dlr + "regLookup$1", `\^d`, "rocRegMap"}} {
		p1 := map[string]string{"opicSubscription": "pfxT", "rocRegMap": "pfxP"}[lk.tbl]
		w1 := map[string]string{"opicSubscription": "wcT", "rocRegMap": "wcP"}[lk.tbl]
		e1 := map[string]string{"opicSubscription": "t", "rocRegMap": "p"}[lk.tbl]
		c.Guard(r2, lk.fn, "prefix table lookup", `^val:`+lk.recv+`\.`+p1+lk.tbl+`\[.*\],ok$`, 1, clause("match == prefix", T(`^\(\^match == "prefix"\)$`)))
		c.Guard(r2, lk.fn, "wildcard table lookup", `^val:`+lk.recv+`\.`+w1+lk.tbl+`\[.*\],ok$`, 1, clause("match == wildcard", T(`^\(\^match == "wildcard"\)$`)))
		c.Guard(r2, lk.fn, "exact table lookup", `^val:`+lk.recv+`\.`+e1+lk.tbl+`\[.*\],ok$`, 1, clause("not prefix", F(`^\(\^match == "prefix"\)$`)), clause("not wildcard", F(`^\(\^match == "wildcard"\)$`)))
	}
	c.R.Floor(r2, 130)

	const r3 = "C18.R3 documented error URIs per handler family"
	families := map[string][]string{
		"(*broker).sub":       {`"wamp.error.no_such_subscription"`, `"wamp.error.invalid_argument"`},
		"(*dealer).reg":       {`"wamp.error.no_such_registration"`},
		"(*realm).session":    {`"wamp.error.no_such_session"`, `"wamp.error.invalid_argument"`, `"wamp.error.invalid_uri"`},
		"(*realm).testament":  {`"wamp.error.invalid_argument"`},
	}
	nErr := 0
	hset := map[*ssa.Function]bool{}
	for _, h := range handlerOf {
		for _, f := range ir.WithClosures(h) {
			hset[f] = true
		}
	}
	for f := range hset {
		name := ir.ShortName(f)
		var allowed []string
		for pfx, a := range families {
			if strings.Contains(name, "router."+pfx) {
				allowed = a
			}
		}
		isOK := func(d string) bool {
			for _, a := range allowed {
				if d == a {
					return true
				}
			}
			return false
		}
		for _, in := range ir.Instrs(f) {
			switch x := in.(type) {
			case *ssa.Alloc:
				if ir.TypeStr(x.Type()) != "*wamp.Error" {
					continue
				}
				lf := ir.LiteralFields(x)
				for _, v := range lf["Error"] {
					nErr++
					c.R.Check(isOK(ir.Desc(v)), r3, name, "ERROR URI "+ir.Desc(v)+" is documented for this family", c.pos(in), "allowed: "+strings.Join(allowed, ", "))
				}
				for _, v := range lf["Request"] {
					c.R.Check(ir.Desc(v) == "%msg.Request", r3, name, "ERROR carries the invocation's request id", c.pos(in), "Request = "+ir.Desc(v))
				}
				for _, v := range lf["Type"] {
					d := ir.Desc(v)
					c.R.Check(d == "68" || strings.Contains(d, "MessageType(%msg)"), r3, name, "ERROR is of type INVOCATION", c.pos(in), "Type = "+d)
				}
			case *ssa.Call:
				if g := x.Call.StaticCallee(); g != nil && ir.ShortName(g) == "router.makeError" {
					nErr++
					c.R.Check(isOK(ir.Desc(x.Call.Args[1])), r3, name, "makeError URI "+ir.Desc(x.Call.Args[1])+" is documented for this family", c.pos(in), "allowed: "+strings.Join(allowed, ", "))
					c.R.Check(ir.Desc(x.Call.Args[0]) == "%msg.Request", r3, name, "makeError carries the invocation's request id", c.pos(in), ir.Desc(x.Call.Args[0]))
				}
			}
		}
		// YIELD replies carry the invocation's request id
		for _, in := range ir.Instrs(f) {
			if a, ok := in.(*ssa.Alloc); ok && ir.TypeStr(a.Type()) == "*wamp.Yield" {
				for _, v := range ir.LiteralFields(a)["Request"] {
					c.R.Check(ir.Desc(v) == "%msg.Request", r3, name, "YIELD carries the invocation's request id", c.pos(in), ir.Desc(v))
				}
			}
		}
	}
	c.Fields(r3, "router.makeError", "makeError literal", "wamp.Error", nil, map[string]string{"Type": `^68$`, "Request": `^%req$`, "Error": `^%uri$`}, 1)
	c.R.Check(nErr >= 40, r3, "router", "error replies of meta handlers enumerated", "-", fmt.Sprintf("found %d", nErr))
	c.R.Floor(r3, 100)

	const r4 = "C18.R4 meta events: conditions and order"
	ss := brk + "syncSubscribe"
	onCreate := `^call:router\.\(\*broker\)\.syncPubSubCreateMeta\(%b, %subscriber\.ID, `
	onSub := `^call:router\.\(\*broker\)\.syncPubSubMeta\(%b, "wamp\.subscription\.on_subscribe", %subscriber\.ID, `
	initSub := `call:router\.\(\*broker\)\.syncInitSubscription\(%b, %msg\.Topic, %match, %subscriber\)`
	c.Guard(r4, ss, "on_create", onCreate, 1, clause("subscription was created by this request", F(`^`+initSub+`#1$`)))
	c.Reach(r4, ss, "on_create precedes on_subscribe", ReachSpec{From: onSub, Target: onCreate, Want: false})
	c.Reach(r4, ss, "a created subscription is announced", ReachSpec{FromEdge: &ir.Clause{Name: "created", Edges: []ir.EdgeSpec{F(`^` + initSub + `#1$`)}}, Stop: onCreate, Target: "EXIT", Want: false})
	c.Guard(r4, ss, "on_subscribe", onSub, 1, clause("not already subscribed", F(`^`+initSub+`#0\.subscribers\[%subscriber\],ok#1$`), F(`^`+initSub+`#1$`)))
	c.Reach(r4, ss, "a new subscriber is announced", ReachSpec{From: `^mapupdate:phi\(%b\.sessionSubIDSet`, Stop: onSub,
		Cut: []ir.Clause{}, Target: "EXIT", Want: false})
	su := brk + "syncUnsubscribe"
	onUnsub := `^call:router\.\(\*broker\)\.syncPubSubMeta\(%b, "wamp\.subscription\.on_unsubscribe", %subscriber\.ID, %msg\.Subscription\)$`
	onDel := `^call:router\.\(\*broker\)\.syncPubSubMeta\(%b, "wamp\.subscription\.on_delete", %subscriber\.ID, %msg\.Subscription\)$`
	subD := `%b\.subscriptions\[%msg\.Subscription\],ok#0`
	c.Reach(r4, su, "on_unsubscribe precedes on_delete", ReachSpec{Stop: onUnsub, Target: onDel, Want: false})
	c.Guard(r4, su, "on_delete", onDel, 1, clause("last subscriber left", T(`^\(call:builtin:len\(`+subD+`\.subscribers\) == 0\)$`)),
		clause("subscription not retained for history", F(`^call:router\.\(\*broker\)\.syncKeepsHistory\(%b, `+subD+`\)$`), F(`^%b\.eventHistoryStore\[`+subD+`\],ok#1$`)))
	c.Reach(r4, su, "on_delete only after the subscription was deleted", ReachSpec{Stop: `^call:router\.\(\*broker\)\.syncDelSubscription\(%b, ` + subD + `\)$`, Target: onDel, Want: false})
	c.Reach(r4, su, "no meta event on the error path", ReachSpec{From: `^call:router\.\(\*broker\)\.trySend\(%b, %subscriber, new\(wamp\.Error\)\)$`, Target: `^call:router\.\(\*broker\)\.syncPubSubMeta\(`, Want: false})
	c.Reach(r4, ss, "SUBSCRIBED for an existing membership announces nothing", ReachSpec{
		FromEdge: &ir.Clause{Name: "already", Edges: []ir.EdgeSpec{T(`^` + initSub + `#0\.subscribers\[%subscriber\],ok#1$`)}}, Target: `^call:router\.\(\*broker\)\.syncPubSub`, Want: false})
	brs := brk + "syncRemoveSession"
	c.Guard(r4, brs, "on_delete on departure", `^call:router\.\(\*broker\)\.syncPubSubMeta\(%b, "wamp\.subscription\.on_delete", `, 1,
		clause("last subscriber left", T(`^\(call:builtin:len\(.*\.subscribers\) == 0\)$`)), clause("not retained for history", F(`^call:router\.\(\*broker\)\.syncKeepsHistory\(`), F(`^%b\.eventHistoryStore\[.*\],ok#1$`)))
	for _, m := range []string{"syncPubSubMeta", "syncPubSubCreateMeta"} {
		f := brk + m + "$1"
		c.Guard(r4, f, "meta event delivery", `^call:router\.\(\*broker\)\.trySend\(`, 2, clause("not echoed to the causing session", F(`^\(\^subSessID == range\(%metaSub\.subscribers\)#k\.ID\)$`)))
	}
	if c.P.Func(brk+"syncPubSubMeta$1$1") != nil { // the constructor stayed a closure (it is passed on as a value)
		c.Fields(r4, brk+"syncPubSubMeta$1$1", "subscription meta EVENT", "wamp.Event", nil, map[string]string{"Publication": `^\^pubID$`, "Subscription": `^\^metaSub\.id$`}, 1)
	} else {
		c.Fields(r4, brk+"syncPubSubMeta$1", "subscription meta EVENT", "wamp.Event", nil, map[string]string{"Publication": `^\^pubID$`, "Subscription": `^%metaSub\.id$`}, 2)
	}
	// dealer
	sr := dlr + "syncRegister"
	topic := func(t string) string { return `^store:new\(wamp\.Publish\)\.&Topic="wamp\.registration\.` + t + `"$` }
	regPhi := `phi\(%d\.pfxProcRegMap\[%msg\.Procedure\]\|%d\.procRegMap\[%msg\.Procedure\]\|%d\.wcProcRegMap\[%msg\.Procedure\]\)`
	c.Guard(r4, sr, "on_create", topic("on_create"), 1, clause("registration created by this request", T(`^\((`+regPhi+`|%d\.(pfxP|wcP|p)rocRegMap\[%msg\.Procedure\]) == nil\)$`)),
		clause("not a wamp.* procedure", F(`^%wampURI$`), F(`^call:strings\.HasPrefix\(%msg\.Procedure, "wamp\."\)$`)), clause("meta peer set", F(`^\(%d\.metaPeer == nil\)$`)))
	c.Reach(r4, sr, "on_create precedes on_register", ReachSpec{From: topic("on_register"), Target: topic("on_create"), Want: false})
	c.Reach(r4, sr, "no meta event on a refusal path", ReachSpec{From: dTrySendTo + `%callee, new\(wamp\.Error\)\)$`, Target: `^store:new\(wamp\.Publish\)`, Want: false})
	c.Reach(r4, sr, "on_register only after REGISTERED was sent", ReachSpec{Stop: dTrySendTo + `%callee, new\(wamp\.Registered\)\)$`, Target: topic("on_register"), Want: false})
	c.Reach(r4, sr, "a registration of a client procedure is announced", ReachSpec{From: dTrySendTo + `%callee, new\(wamp\.Registered\)\)$`, Stop: topic("on_register"),
		Cut: []ir.Clause{clause("wamp.* procedure or no meta peer", T(`^%wampURI$`), T(`^call:strings\.HasPrefix\(%msg\.Procedure, "wamp\."\)$`), T(`^\(%d\.metaPeer == nil\)$`))}, Target: "EXIT", Want: false})
	sun := dlr + "syncUnregister"
	c.Reach(r4, sun, "on_unregister precedes on_delete", ReachSpec{Stop: topic("on_unregister"), Target: topic("on_delete"), Want: false})
	c.Guard(r4, sun, "on_delete", topic("on_delete"), 1, clause("last callee left", T(`^call:router\.\(\*dealer\)\.syncDelCalleeReg\(%d, %callee, %msg\.Registration\)#0$`)))
	c.Reach(r4, sun, "no meta event on the error path", ReachSpec{From: dTrySendTo + `%callee, new\(wamp\.Error\)\)$`, Target: `^store:new\(wamp\.Publish\)`, Want: false})
	drs := dlr + "syncRemoveSession"
	c.Reach(r4, drs, "departure: on_unregister precedes on_delete for a registration", ReachSpec{
		FromEdge: &ir.Clause{Name: "a registration of the session", Edges: []ir.EdgeSpec{T(`^next:range\(%d\.calleeRegIDSet\[%sess\]\)#more$`)}},
		Stop:     topic("on_unregister"), Target: topic("on_delete"), Want: false})
	c.Guard(r4, drs, "on_delete on departure", topic("on_delete"), 1, clause("last callee left", T(`^call:router\.\(\*dealer\)\.syncDelCalleeReg\(%d, %sess, range\(%d\.calleeRegIDSet\[%sess\]\)#k\)#0$`)))
	// registration meta events are delivered in the order they were appended
	for _, f := range []string{dlr + "register", dlr + "unregister", dlr + "removeSession"} {
		c.Has(r4, f, "meta publications sent in slice order", `^send:call:invoke:wamp\.Peer\.Send\[%d\.metaPeer\]\(\)<-local:metaPubs\[\(phi\(\(phi↺ \+ 1\)\|-1\) \+ 1\)\]$`, 1)
	}
	// session meta events
	c.Fields(r4, rlm+"onJoin", "on_join publication", "wamp.Publish", nil, map[string]string{"Topic": `^"wamp\.session\.on_join"$`}, 1)
	notTestament := func(f map[string][]string) bool { // testament publications (their topics come from the stored testaments) are C05.R6's
		for _, v := range f["Topic"] {
			if strings.Contains(v, "testaments") {
				return false
			}
		}
		return true
	}
	c.Fields(r4, rlm+"onLeave", "on_leave publication", "wamp.Publish", notTestament, map[string]string{"Topic": `^"wamp\.session\.on_leave"$`}, 1)
	c.Reach(r4, rlm+"onJoin", "session joins the table before on_join is published", ReachSpec{Stop: `^send:%r\.actionChan<-closure:router\.\(\*realm\)\.onJoin\$1$`, Target: `^send:call:invoke:wamp\.Peer\.Send\[%r\.metaPeer\]`, Want: false})
	ruleLocalCopies(c, r4) // each subscription's meta event is built for that subscription; local subscribers get their own
	ruleSessionDetailsOrder(c, r4) // the session id and identity the session meta API reports are the router's and the authenticator's
	c.R.Floor(r4, 40)

	const r6 = "C18.R6 lookup tables stay consistent with the match policy (lookup/match answer what routing uses)"
	ruleBrokerTables(c, r6)
	ruleMatchPredicates(c, r6) // meta events reach subscribers under the same match code as events
	c.R.Floor(r6, 20)
	const r7 = "C18.R7 an ineffective UNSUBSCRIBE announces nothing"
	ruleUnsubscribeMember(c, r7)
	c.R.Floor(r7, 14)
	const r8 = "C18.R8 an ineffective UNREGISTER announces nothing"
	ruleUnregisterMember(c, r8)
	c.R.Floor(r8, 9)

	const rdup = "C18.R9 a repeated REGISTER by a member is not announced and not listed twice"
	ruleNoDuplicateCallee(c, rdup)
	c.R.Floor(rdup, 1)

	const r5 = "C18.R5 kill procedures spare the caller and the meta session; testaments flushed per scope"
	sk := rlm + "sessionKill"
	c.Guard(r5, sk, "kill", `^call:router\.\(\*realm\)\.killSession\(`, 1, clause("target is not the caller", F(`^\(call:wamp\.AsID\(%msg\.Arguments\[0\]\)#0 == call:wamp\.AsID\(%msg\.Details\["caller"\]\)#0\)$`)))
	c.Has(r5, sk, "kill passes the target, reason and message given", `^call:router\.\(\*realm\)\.killSession\(%r, call:wamp\.AsID\(%msg\.Arguments\[0\]\)#0, call:wamp\.AsURI\(%msg\.ArgumentsKw\["reason"\]\)#0, call:wamp\.AsString\(%msg\.ArgumentsKw\["message"\]\)#0\)$`, 1)
	kd := rlm + "killSessionsByDetail$1"
	endRecv := `^call:wamp\.\(\*Session\)\.EndRecv\(range\(\^r\.clients\)#v, \^goodbye\)$`
	c.Guard(r5, kd, "kill by detail", endRecv, 1,
		clause("not the excluded (calling) session", F(`^\(\^exclude == range\(\^r\.clients\)#k\)$`)),
		clause("not the meta session", F(`^\(\^r\.metaSess == range\(\^r\.clients\)#v\)$`)),
		clause("detail has the requested value", T(`^\(\^value == call:wamp\.AsString\(range\(\^r\.clients\)#v\.Details\[\^key\]\)#0\)$`)))
	c.Guard(r5, rlm+"killAllSessions$1", "kill all", endRecv, 1, clause("not the excluded (calling) session", F(`^\(\^exclude == range\(\^r\.clients\)#k\)$`)))
	for _, f := range []struct{ fn, key string }{{rlm + "sessionKillByAuthid", "authid"}, {rlm + "sessionKillByAuthrole", "authrole"}} {
		c.Has(r5, f.fn, "excludes the caller, matches on "+f.key, `^call:router\.\(\*realm\)\.killSessionsByDetail\(%r, "`+f.key+`", call:wamp\.AsString\(%msg\.Arguments\[0\]\)#0, .*, call:wamp\.AsID\(%msg\.Details\["caller"\]\)#0\)$`, 1)
	}
	c.Has(r5, rlm+"sessionKillAll", "excludes the caller", `^call:router\.\(\*realm\)\.killAllSessions\(%r, .*, call:wamp\.AsID\(%msg\.Details\["caller"\]\)#0\)$`, 1)
	c.Has(r5, rlm+"killSession$1", "ends exactly the session with the given id", `^call:wamp\.\(\*Session\)\.EndRecv\(\^r\.clients\[\^sid\],ok#0, \^goodbye\)$`, 1)
	tf := rlm + "testamentFlush$1"
	c.Guard(r5, tf, "bucket deleted", `^call:builtin:delete\(\^r\.testaments, \^caller\)$`, 1,
		clause("no destroyed-scope testaments left", T(`^\(.*destroyed == nil\)$`), T(`^\(nil == nil\)$`)), clause("no detached-scope testaments left", T(`^\(.*detached == nil\)$`), T(`^\(nil == nil\)$`)))
	c.Guard(r5, tf, "destroyed scope cleared", `^store:.*destroyed=nil$`, 1, clause("scope is destroyed", T(`^\(\^scope == "destroyed"\)$`)))
	c.Guard(r5, tf, "detached scope cleared", `^store:.*detached=nil$`, 1, clause("scope is not destroyed", F(`^\(\^scope == "destroyed"\)$`)))
	ta := rlm + "testamentAdd$1"
	c.Has(r5, ta, "testament stored under the caller's id", `^mapupdate:\^r\.testaments\[\^caller\]=`, 1)
	for _, f := range []string{rlm + "sessionCount$2", rlm + "sessionList$2"} {
		c.Has(r5, f, "count and list use the same authrole filter", `^call:slices\.Contains\(\^filter, call:wamp\.AsString\(range\(\^r\.clients\)#v\.Details\["authrole"\]\)#0\)$`, 1)
	}
	ruleTestamentBuckets(c, r5)
	ruleShutdownFlag(c, r5) // a kill is never mistaken for realm shutdown (which would skip on_leave, testaments and removal)
	ruleDictWrites(c, r5) // the kill-all mark is written into a GOODBYE private to that kill
	c.R.Floor(r5, 17)
}

// boundTarget resolves the method a `$bound` wrapper calls.
func boundTarget(w *ssa.Function) *ssa.Function {
	for _, in := range ir.Instrs(w) {
		if call, ok := in.(*ssa.Call); ok {
			if f := call.Call.StaticCallee(); f != nil {
				return f
			}
		}
	}
	return nil
}

var _ = sort.Strings
