package props

import (
	"fmt"
	"go/constant"
	"go/types"
	"reflect"
	"sort"
	"strings"

	"golang.org/x/tools/go/ssa"

	"nxcheck/internal/ir"
)

func init() {
	register(&Check{
		ID: "C14",
		Decides: "table agreement and structural panic-freedom of the serializers only: every MessageType constant has a NewMessage arm returning the struct whose MessageType() is that constant and a name in mtStrings; every message " +
			"struct has only fields of the kinds the reflection code can assign (ID, URI, MessageType, string, Dict, List) with omitempty only on Dict/List; every codec handle is created together with MapType=map[string]any " +
			"(also when re-initialised); the three Deserialize siblings test for an empty list, read the type code with checked assertions and call listToMsg; listToMsg bounds its loop by both the field count and the list " +
			"length; BinaryData marshals and unmarshals with the same base64 alphabet.",
		NotDecided: "the bulk of the property: value round-trip equality, cross-format agreement, integer/float representation and binary handling are run-time value properties of the codec library; nothing is claimed about them.",
		Run: runC14,
	})
}

func runC14(c *Ctx) {
	wp := c.P.ByRel["wamp"]
	const r1 = "C14.R1 message type constants, constructors and names agree"
	// MessageType constants
	consts := map[int64]string{}
	for _, nm := range wp.Types.Scope().Names() {
		if k, ok := wp.Types.Scope().Lookup(nm).(*types.Const); ok && ir.TypeStr(k.Type()) == "wamp.MessageType" {
			if v, ok := constant.Int64Val(k.Val()); ok {
				consts[v] = nm
			}
		}
	}
	// NewMessage arms
	arms := map[int64]string{}
	if fn := c.Fn(r1, "wamp.NewMessage"); fn != nil {
		for _, b := range fn.Blocks {
			iff, ok := b.Instrs[len(b.Instrs)-1].(*ssa.If)
			if !ok {
				continue
			}
			bo, ok := iff.Cond.(*ssa.BinOp)
			if !ok {
				continue
			}
			k, ok := bo.Y.(*ssa.Const)
			if !ok {
				k, ok = bo.X.(*ssa.Const)
			}
			if !ok || k.Value == nil {
				continue
			}
			v, _ := constant.Int64Val(k.Value)
			// the true successor returns a fresh message
			for _, in := range b.Succs[0].Instrs {
				if r, ok := in.(*ssa.Return); ok && len(r.Results) == 1 {
					arms[v] = strings.TrimPrefix(ir.AllocatedTypeOr(r.Results[0]), "*")
				}
			}
		}
	}
	// mtStrings keys
	names := map[int64]bool{}
	if fn := c.Fn(r1, "wamp.init"); fn != nil {
		for _, in := range ir.Instrs(fn) {
			if mu, ok := in.(*ssa.MapUpdate); ok && strings.HasPrefix(ir.Desc(mu.Map), "makemap(map[wamp.MessageType]string)") {
				if k, ok := mu.Key.(*ssa.Const); ok {
					v, _ := constant.Int64Val(k.Value)
					names[v] = true
				}
			}
		}
	}
	var keys []int64
	for v := range consts {
		keys = append(keys, v)
	}
	sort.Slice(keys, func(i, j int) bool { return keys[i] < keys[j] })
	for _, v := range keys {
		nm := consts[v]
		t := arms[v]
		c.R.Check(t != "", r1, "wamp."+nm, "NewMessage has an arm for the constant", "-", fmt.Sprintf("no arm for %s (%d): such messages cannot be deserialised", nm, v))
		c.R.Check(names[v], r1, "wamp."+nm, "mtStrings names the constant", "-", fmt.Sprintf("%s has no entry in mtStrings", nm))
		if t == "" {
			continue
		}
		mt := c.P.Func("wamp.(*" + strings.TrimPrefix(t, "wamp.") + ").MessageType")
		got := int64(-1)
		if mt != nil {
			for _, ex := range ir.Exits(mt, false) {
				if k, ok := ex.(*ssa.Return).Results[0].(*ssa.Const); ok {
					got, _ = constant.Int64Val(k.Value)
				}
			}
		}
		c.R.Check(got == v, r1, "wamp."+nm, "arm returns the struct whose MessageType() is the constant", "-", fmt.Sprintf("NewMessage(%s) returns %s whose MessageType() is %d", nm, t, got))
	}
	c.R.Check(len(consts) >= 24, r1, "wamp", "message type constants enumerated", "-", fmt.Sprintf("found %d", len(consts)))
	c.R.Floor(r1, 70)

	const r2 = "C14.R2 message structs have only assignable field kinds"
	msgIface, _ := wp.Types.Scope().Lookup("Message").Type().Underlying().(*types.Interface)
	okKinds := map[string]bool{"wamp.ID": true, "wamp.URI": true, "wamp.MessageType": true, "string": true, "wamp.Dict": true, "wamp.List": true}
	nStruct := 0
	for _, nm := range wp.Types.Scope().Names() {
		tn, ok := wp.Types.Scope().Lookup(nm).(*types.TypeName)
		if !ok {
			continue
		}
		st, ok := tn.Type().Underlying().(*types.Struct)
		if !ok || msgIface == nil || !types.Implements(types.NewPointer(tn.Type()), msgIface) {
			continue
		}
		nStruct++
		for i := 0; i < st.NumFields(); i++ {
			f := st.Field(i)
			ft := ir.TypeStr(f.Type())
			c.R.Check(okKinds[ft], r2, "wamp."+nm, "field "+f.Name()+" has an assignable kind", c.P.Pos(f.Pos()),
				"field "+f.Name()+" has type "+ft+": listToMsg can only assign ID, URI, MessageType, string, Dict and List and panics on anything else")
			tag := reflect.StructTag(st.Tag(i)).Get("wamp")
			if strings.Contains(tag, "omitempty") {
				c.R.Check(ft == "wamp.Dict" || ft == "wamp.List", r2, "wamp."+nm, "omitempty on "+f.Name()+" only for Dict/List", c.P.Pos(f.Pos()),
					"msgToList calls Len() on omitempty fields; "+ft+" has no length")
			}
		}
	}
	c.R.Check(nStruct >= 24, r2, "wamp", "message structs enumerated", "-", fmt.Sprintf("found %d", nStruct))
	c.R.Floor(r2, 80)

	const r3 = "C14.R3 codec handles decode maps as map[string]any"
	nHandle := 0
	for _, fn := range c.P.FuncsIn("transport/serialize") {
		name := ir.ShortName(fn)
		for _, in := range ir.Instrs(fn) {
			st, ok := in.(*ssa.Store)
			if !ok {
				continue
			}
			g, ok := st.Addr.(*ssa.Global)
			if !ok || !strings.HasSuffix(ir.TypeStr(g.Type()), "Handle") && !strings.Contains(ir.TypeStr(g.Type()), "Handle") {
				continue
			}
			if _, isAlloc := st.Val.(*ssa.Alloc); !isAlloc {
				continue
			}
			nHandle++
			// same function must set MapType on that global from reflect.TypeFor[map[string]any]
			ok = false
			for _, in2 := range ir.Instrs(fn) {
				s2, isSt := in2.(*ssa.Store)
				if !isSt || !strings.HasSuffix(ir.Desc(s2.Addr), ".&MapType") || !strings.Contains(ir.Desc(s2.Addr), g.Name()) {
					continue
				}
				if call, isCall := s2.Val.(*ssa.Call); isCall {
					if f := call.Call.StaticCallee(); f != nil && strings.HasPrefix(f.String(), "reflect.TypeFor[map[string]") {
						ok = true
					}
				}
			}
			c.R.Check(ok, r3, name, "handle "+g.Name()+" is created together with MapType = map[string]any", c.pos(in),
				"a new codec handle is stored in "+g.Name()+" without MapType being set in the same function: maps would decode as map[any]any (msgpack/cbor), unlike the other formats")
		}
	}
	c.R.Check(nHandle >= 3, r3, "transport/serialize", "handle creations enumerated", "-", fmt.Sprintf("found %d", nHandle))
	// the decoders run with the reviewed options only: anything else set on a handle (RawToString, MaxDepth, …)
	// changes what the same bytes decode to, in one format and not in the others
	reviewedOpt := map[string]bool{"&WriteExt": true, "&BasicHandle.&DecodeOptions.&MapType": true}
	nOpt := 0
	for _, fn := range c.P.FuncsIn("transport/serialize") {
		for _, in := range ir.Instrs(fn) {
			st, ok := in.(*ssa.Store)
			if !ok {
				continue
			}
			d := ir.Desc(st.Addr)
			m := re(`^\*g:transport/serialize\.(jh|mh|ch)\.(.+)$`).FindStringSubmatch(d)
			if m == nil {
				continue
			}
			nOpt++
			c.R.Check(reviewedOpt[m[2]], r3, ir.ShortName(fn), "codec option "+m[1]+"."+strings.ReplaceAll(m[2], "&", "")+" is a reviewed one", c.pos(in),
				"option "+strings.ReplaceAll(m[2], "&", "")+" is set on the "+m[1]+" handle: not one of the reviewed decoder options (MapType, WriteExt); it changes what this format decodes, unlike its siblings")
		}
	}
	c.R.Check(nOpt >= 4, r3, "transport/serialize", "codec option stores enumerated", "-", fmt.Sprintf("found %d", nOpt))
	c.R.Floor(r3, 9)

	const r4 = "C14.R4 listToMsg and the Deserialize siblings are bounded and checked"
	ruleListToMsgBounded(c, r4)
	for _, s := range []string{"JSONSerializer", "MessagePackSerializer", "CBORSerializer"} {
		f := "transport/serialize.(*" + s + ").Deserialize"
		c.Guard(r4, f, "message built", `^call:transport/serialize\.listToMsg\(`, 1,
			clause("decoding succeeded", T(`^\(call:invoke:codec\.decoderI\.Decode\[.*\]\(&local:v\) == nil\)$`), T(`^\(call:.*Decode.* == nil\)$`)),
			clause("list not empty", F(`^\(call:builtin:len\(local:v\) == 0\)$`)))
		c.HasNot(r4, f, "type code taken from an integer only (no lenient numeric conversion)", `^call:wamp\.As[A-Z]`)
		c.Has(r4, f, "type code converted, list passed on", `^call:transport/serialize\.listToMsg\(conv:(int|wamp\.MessageType)\(.*\), local:v\)$`, 1)
		if fn := c.P.Func(f); fn != nil {
			for _, in := range ir.Instrs(fn) {
				cv, ok := in.(*ssa.Convert)
				if !ok {
					continue
				}
				if b, ok := cv.Type().Underlying().(*types.Basic); ok && b.Info()&types.IsInteger != 0 {
					narrow := b.Kind() == types.Int8 || b.Kind() == types.Uint8 || b.Kind() == types.Int16 || b.Kind() == types.Uint16
					c.R.Check(!narrow, r4, f, "type code is not truncated: "+ir.Desc(cv), c.pos(in),
						"the decoded type code is converted to "+b.Name()+": codes above its range wrap around and are accepted as valid message types")
				}
			}
		}
	}
	mtl := "transport/serialize.msgToList"
	c.Has(r4, mtl, "first element is the message's type code", `^store:makeslice\(\[\]any\)\.&\[0\]=(conv:int\()?call:invoke:wamp\.Message\.MessageType\[%msg\]\(\)\)?$`, 1)
	c.R.Floor(r4, 10)

	const r5 = "C14.R5 binary data uses one base64 alphabet"
	enc := func(fname string) []string {
		fn := c.Fn(r5, fname)
		set := map[string]bool{}
		if fn != nil {
			for _, in := range ir.Instrs(fn) {
				d := ir.InstrDesc(in)
				for _, a := range []string{"StdEncoding", "URLEncoding", "RawStdEncoding", "RawURLEncoding"} {
					if strings.Contains(d, "*g:encoding/base64."+a+",") || strings.Contains(d, "*g:encoding/base64."+a+")") {
						set[a] = true
					}
				}
			}
		}
		var out []string
		for a := range set {
			out = append(out, a)
		}
		sort.Strings(out)
		return out
	}
	m, u := enc("transport/serialize.(BinaryData).MarshalJSON"), enc("transport/serialize.(*BinaryData).UnmarshalJSON")
	c.R.Check(len(m) == 1 && strings.Join(m, ",") == strings.Join(u, ","), r5, "transport/serialize.BinaryData", "MarshalJSON and UnmarshalJSON use the same base64 encoding", "-",
		fmt.Sprintf("MarshalJSON uses %v, UnmarshalJSON uses %v", m, u))
	c.Has(r5, "transport/serialize.(*BinaryData).UnmarshalJSON", "NUL prefix stripped before decoding", `^call:\(\*encoding/base64\.Encoding\)\.DecodeString\(\*g:encoding/base64\.\w+, local:s\[1:\]\)$`, 1)
	c.Has(r5, "transport/serialize.(BinaryData).MarshalJSON", "NUL prefix added", `\("\\x00" \+ call:\(\*encoding/base64\.Encoding\)\.EncodeToString\(`, 1)
	c.R.Floor(r5, 3)

	const r6 = "C14.R6 wire layout of every message: field order, kinds and trailing-omission marks follow the WAMP message definitions"
	// external reference: the message definitions of the WAMP specification (basic and advanced profile); '?' marks
	// the trailing payload elements that are omitted when empty
	layout := map[string]string{
		"Hello": "Realm:URI Details:Dict", "Welcome": "ID:ID Details:Dict", "Abort": "Details:Dict Reason:URI",
		"Challenge": "AuthMethod:string Extra:Dict", "Authenticate": "Signature:string Extra:Dict", "Goodbye": "Details:Dict Reason:URI",
		"Error":       "Type:MessageType Request:ID Details:Dict Error:URI Arguments:List? ArgumentsKw:Dict?",
		"Publish":     "Request:ID Options:Dict Topic:URI Arguments:List? ArgumentsKw:Dict?",
		"Published":   "Request:ID Publication:ID",
		"Subscribe":   "Request:ID Options:Dict Topic:URI",
		"Subscribed":  "Request:ID Subscription:ID",
		"Unsubscribe": "Request:ID Subscription:ID", "Unsubscribed": "Request:ID",
		"Event":      "Subscription:ID Publication:ID Details:Dict Arguments:List? ArgumentsKw:Dict?",
		"Call":       "Request:ID Options:Dict Procedure:URI Arguments:List? ArgumentsKw:Dict?",
		"Cancel":     "Request:ID Options:Dict",
		"Result":     "Request:ID Details:Dict Arguments:List? ArgumentsKw:Dict?",
		"Register":   "Request:ID Options:Dict Procedure:URI",
		"Registered": "Request:ID Registration:ID", "Unregister": "Request:ID Registration:ID", "Unregistered": "Request:ID",
		"Invocation": "Request:ID Registration:ID Details:Dict Arguments:List? ArgumentsKw:Dict?",
		"Interrupt":  "Request:ID Options:Dict",
		"Yield":      "Request:ID Options:Dict Arguments:List? ArgumentsKw:Dict?",
	}
	nLay := 0
	for _, nm := range sortedKeysF(layout) {
		tn, _ := wp.Types.Scope().Lookup(nm).(*types.TypeName)
		if tn == nil {
			c.R.Unknown(r6, "wamp."+nm, "message struct", "-", "message struct not found")
			continue
		}
		st, ok := tn.Type().Underlying().(*types.Struct)
		if !ok {
			c.R.Unknown(r6, "wamp."+nm, "message struct", "-", "not a struct")
			continue
		}
		var got []string
		for i := 0; i < st.NumFields(); i++ {
			f := st.Field(i)
			k := strings.TrimPrefix(ir.TypeStr(f.Type()), "wamp.")
			tag, has := reflect.StructTag(st.Tag(i)).Lookup("wamp")
			switch {
			case !has:
			case tag == "omitempty":
				k += "?"
			default:
				k += "!unknown-tag(" + tag + ")"
			}
			got = append(got, f.Name()+":"+k) // exported wire fields: real names, renaming them changes the API
		}
		nLay++
		c.R.Check(strings.Join(got, " ") == layout[nm], r6, "wamp."+nm, "field layout", c.P.Pos(tn.Pos()),
			"wamp."+nm+" is laid out as ["+strings.Join(got, " ")+"], the message definition is ["+layout[nm]+"]")
	}
	c.R.Check(nLay == nStruct, r6, "wamp", "every message struct has a reference layout", "-", fmt.Sprintf("%d message structs, %d reference layouts", nStruct, nLay))
	c.R.Floor(r6, 25)
}

// ruleListToMsgBounded: the reflection loop that fills a message from a decoded list never indexes a field the
// message type does not have, nor a list element that is not there, and an unknown type code yields an error.
func ruleListToMsgBounded(c *Ctx, r4 string) {
	l2m := "transport/serialize.listToMsg"
	val := `phi\(call:\(reflect\.Value\)\.Elem\(call:reflect\.ValueOf\(call:wamp\.NewMessage\(%msgType\)\)\)\|call:reflect\.ValueOf\(call:wamp\.NewMessage\(%msgType\)\)\)`
	c.Guard(r4, l2m, "message field accessed", `^call:\(reflect\.Value\)\.Field\(`+val+`, `, 1,
		clause("index below the number of fields", T(`^\(.* < call:\(reflect\.Value\)\.NumField\(`+val+`\)\)$`)),
		clause("index below the list length - 1", T(`^\(.* < \(call:builtin:len\(%vlist\) - 1\)\)$`)))
	c.Guard(r4, l2m, "unknown message type refused", `^return:nil, call:errors\.New\("unsupported message type"\)$`, 1, clause("NewMessage returned nil", T(`^\(call:wamp\.NewMessage\(%msgType\) == nil\)$`)))
	c.Reach(r4, l2m, "nil NewMessage result is never used", ReachSpec{FromEdge: &ir.Clause{Name: "nil", Edges: []ir.EdgeSpec{T(`^\(call:wamp\.NewMessage\(%msgType\) == nil\)$`)}}, Target: `^call:reflect\.ValueOf\(`, Want: false})
}
