// Package props holds the per-property obligation tables: instances of the
// rule engines on the constructs of gammazero/nexus.
package props

import (
	"sort"

	"nxcheck/internal/ir"
	"nxcheck/internal/report"
)

// Ctx is what a property check gets.
type Ctx struct {
	P    *ir.Prog
	R    *report.Run
	Tier string
	// Load386 loads the tree under GOARCH=386 (thorough tier only).
	Alt *ir.Prog
}

type Check struct {
	ID         string
	Decides    string
	NotDecided string
	Run        func(c *Ctx)
}

var registry = map[string]*Check{}

func register(c *Check) { registry[c.ID] = c }

func Get(id string) *Check { return registry[id] }

func IDs() []string {
	var ids []string
	for id := range registry {
		ids = append(ids, id)
	}
	sort.Strings(ids)
	return ids
}
