package props

import (
	"fmt"
	"go/types"
	"sort"
	"strings"

	"golang.org/x/tools/go/ssa"

	"nxcheck/internal/ir"
)

const rlm = `router.(*realm).`

// ruleSessionRemoval: a session's peer is closed only when nothing can be
// routed to it any more. Either the session's handler closes it, after the
// leave action removed the session from the realm's client table, the dealer
// and the broker; or (realm shutdown) the leave action hands the session to
// realm.close, which closes the peer after the dealer and broker goroutines
// have stopped.
func ruleSessionRemoval(c *Ctx, rule string) {
	hs := rlm + "handleSession$1"
	him := `call:router\.\(\*realm\)\.handleInboundMessages\(\^r, \^sess\)`
	onLeaveCall := `^call:router\.\(\*realm\)\.onLeave\(\^r, \^sess, ` + him + `#0, ` + him + `#1\)$`
	peerClose := `^call:invoke:wamp\.Peer\.Close\[\^sess\.Peer\]\(\)$`
	c.Reach(rule, hs, "peer closed only after onLeave", ReachSpec{Stop: onLeaveCall, Target: peerClose, Want: false})
	c.Reach(rule, hs, "handler always runs onLeave", ReachSpec{Stop: onLeaveCall, Target: "EXIT", Want: false})
	c.Guard(rule, hs, "handler closes the peer only when the session was removed from dealer and broker", peerClose, 1,
		clause("not a shutdown exit", F(`^`+him+`#0$`)))
	c.Reach(rule, hs, "a session leaving outside shutdown has its peer closed by its handler", ReachSpec{
		Stop: peerClose, Cut: []ir.Clause{clause("shutdown exit", T(`^`+him+`#0$`))}, Target: "EXIT", Want: false})
	c.Reach(rule, hs, "handler signs off (waitHandlers.Done) only after closing", ReachSpec{
		Stop: peerClose, Cut: []ir.Clause{clause("shutdown exit", T(`^`+him+`#0$`))}, Target: `^call:\(\*sync\.WaitGroup\)\.Done\(`, Want: false})
	ol := rlm + "onLeave"
	c.Reach(rule, ol, "onLeave always posts the removal action", ReachSpec{Stop: `^send:%r\.actionChan<-closure:router\.\(\*realm\)\.onLeave\$1$`, Target: "EXIT", Want: false})
	c.Reach(rule, ol, "onLeave waits for the removal action", ReachSpec{Stop: `^val:<-makechan\(chan struct\{\},0\)$`, Target: "EXIT", Want: false})
	c.Has(rule, ol, "shutdown flag handed to the action is onLeave's parameter", `^store:&local:shutdown=%shutdown$`, 1)
	ol1 := ol + "$1"
	handOver := `^store:\^r\.&closeOnStop=call:builtin:append\(\^r\.closeOnStop, `
	c.Reach(rule, ol1, "removed from realm clients on every exit of the leave action", ReachSpec{Stop: `^call:builtin:delete\(\^r\.clients, \^sess\.ID\)$`, Target: "EXIT", Want: false})
	for _, rm := range [][2]string{
		{"dealer", `^call:router\.\(\*dealer\)\.removeSession\(\^r\.dealer, \^sess\)$`},
		{"broker", `^call:router\.\(\*broker\)\.removeSession\(\^r\.broker, \^sess\)$`},
	} {
		c.Reach(rule, ol1, "every exit of the leave action removed the session from the "+rm[0]+" or handed its peer to realm.close", ReachSpec{
			Stop: rm[1] + "|" + handOver, Target: "EXIT", Want: false})
		c.Reach(rule, ol1, "outside shutdown the session is removed from the "+rm[0], ReachSpec{
			Stop: rm[1], Cut: []ir.Clause{clause("shutdown", T(`^\^shutdown$`))}, Target: "EXIT", Want: false})
	}
	c.Guard(rule, ol1, "peer handed to realm.close only on shutdown", handOver, 1, clause("shutdown", T(`^\^shutdown$`)))
	if fn := c.Fn(rule, ol1); fn != nil {
		ok := false
		for _, in := range matches(fn, handOver) {
			// the appended element is the leaving session
			st := in.(*ssa.Store)
			if call, isCall := st.Val.(*ssa.Call); isCall && len(call.Call.Args) == 2 {
				if sl, isSl := call.Call.Args[1].(*ssa.Slice); isSl {
					if al, isAl := sl.X.(*ssa.Alloc); isAl {
						for _, r := range *al.Referrers() {
							if ia, isIA := r.(*ssa.IndexAddr); isIA {
								for _, u := range *ia.Referrers() {
									if s2, isSt := u.(*ssa.Store); isSt && ir.Desc(s2.Val) == "^sess" {
										ok = true
									}
								}
							}
						}
					}
				}
			}
		}
		c.R.Check(ok, rule, ol1, "the session handed over is the leaving one", c.P.FuncPos(fn), "closeOnStop is not appended with ^sess")
	}
	c.Reach(rule, ol1, "action signals completion last", ReachSpec{From: `^call:builtin:close\(\^sync\)$`, Target: `^call:router\.|^call:builtin:delete|^store:`, Want: false})
	// realm.close closes the handed-over peers only after dealer and broker stopped
	rc := rlm + "close"
	stopClose := `^call:invoke:wamp\.Peer\.Close\[%r\.closeOnStop\[`
	for _, pre := range []string{
		`^call:\(\*sync\.WaitGroup\)\.Wait\(%r\.&waitHandlers\)$`,
		`^call:router\.\(\*dealer\)\.close\(%r\.dealer\)$`,
		`^call:router\.\(\*broker\)\.close\(%r\.broker\)$`,
	} {
		c.Reach(rule, rc, "handed-over peers closed only after "+pre, ReachSpec{Stop: pre, Target: stopClose, Want: false})
	}
	c.Reach(rule, rc, "an effective realm.close closes the handed-over peers", ReachSpec{
		From: `^store:%r\.&closed=true$`, Stop: `^val:range|^call:builtin:len\(%r\.closeOnStop\)$`, Target: "EXIT", Want: false})
	c.Has(rule, rc, "loop over handed-over peers", stopClose, 1)
	// the removal entry points hand the session to the owners' goroutines and wait
	for _, f := range []string{dlr + "removeSession", brk + "removeSession"} {
		c.Reach(rule, f, "removeSession posts the removal action for a non-nil session", ReachSpec{
			Stop: `^send:%[bd]\.actionChan<-closure:`, Cut: []ir.Clause{clause("nil session", T(`^\(%sess == nil\)$`))}, Target: "EXIT", Want: false})
	}
	c.Has(rule, dlr+"removeSession$1", "dealer action removes that session", `^call:router\.\(\*dealer\)\.syncRemoveSession\(\^d, \^sess\)$`, 1)
	c.Has(rule, brk+"removeSession$1", "broker action removes that session", `^call:router\.\(\*broker\)\.syncRemoveSession\(\^b, \^sess\)$`, 1)
	c.Reach(rule, dlr+"removeSession", "dealer.removeSession waits for the action", ReachSpec{From: `^send:%d\.actionChan<-closure:`, Stop: `^val:<-makechan\(chan struct\{\},0\)$`, Target: "EXIT", Want: false})
}

// ruleNoDuplicateCallee: a session is appended to a registration's callees
// only when it is not already a member.
func ruleNoDuplicateCallee(c *Ctx, rule string) {
	sr := dlr + "syncRegister"
	regPhi := `phi\(%d\.pfxProcRegMap\[%msg\.Procedure\]\|%d\.procRegMap\[%msg\.Procedure\]\|%d\.wcProcRegMap\[%msg\.Procedure\]\)`
	addCallee := `^store:` + regPhi + `\.&callees=call:builtin:append\(` + regPhi + `\.callees, `
	c.Guard(rule, sr, "append callee to existing registration", addCallee, 1,
		clause("callee not already a member", F(`^call:slices\.Contains\(`+regPhi+`\.callees, %callee\)$`)))
}

// ruleOnlyInProcessIsLocal: a session is "local" (exempt from authentication and, by default, from authorization)
// only when its peer is the in-process linked peer; every network peer answers IsLocal with the constant false.
func ruleOnlyInProcessIsLocal(c *Ctx, rule string) {
	n := 0
	for _, fn := range c.P.NexusFuncs {
		name := ir.ShortName(fn)
		if !strings.HasSuffix(name, ".IsLocal") || !libFunc(name) {
			continue
		}
		n++
		for _, ex := range ir.Exits(fn, false) {
			r := ex.(*ssa.Return)
			if len(r.Results) != 1 {
				continue
			}
			d := ir.Desc(r.Results[0])
			if name == "transport.(*localPeer).IsLocal" {
				c.R.Check(d == "true", rule, name, "the in-process peer is local", c.pos(ex), "returns "+d)
			} else {
				c.R.Check(d == "false", rule, name, "a network peer is never local", c.pos(ex),
					"IsLocal of a peer that carries a network connection returns "+d+": sessions over that transport would skip authentication (trusted role, self-chosen authid) and authorization")
			}
		}
	}
	c.R.Check(n >= 3, rule, "transport", "IsLocal implementations enumerated", "-", fmt.Sprintf("found %d", n))
}

// ruleClientNumericTolerance: the client reads numbers the router sends (details, options) through the tolerant
// accessors, never through an assertion to one concrete numeric type (which matches for one serializer only).
func ruleClientNumericTolerance(c *Ctx, rule string) {
	n := 0
	for _, fn := range c.P.FuncsIn("client") {
		name := ir.ShortName(fn)
		for _, in := range ir.Instrs(fn) {
			ta, ok := in.(*ssa.TypeAssert)
			if !ok || !numericType(ta.AssertedType) {
				continue
			}
			n++
			c.R.Check(!fromAny(ta.X, 0), rule, name, "numeric assertion "+ir.Desc(ta), c.pos(in),
				"data received from the router is asserted to the concrete type "+ir.TypeStr(ta.AssertedType)+": JSON and CBOR decode numbers as uint64/float64, msgpack as int64/uint64, so this matches only for some transports")
		}
	}
	c.R.OK(rule, "client", fmt.Sprintf("%d numeric type assertions enumerated", n), "-", "")
	c.Has(rule, cl+"runHandleInvocation", "forwarded timeout read type-tolerantly", `^call:wamp\.AsInt64\(%msg\.Details\["timeout"\]\)$`, 1)
}

// ruleKeepAliveCloses: a websocket peer whose keep-alive pings go unanswered closes its connection (which ends the
// receive loop, so that the session — router side — or the client's Done() — client side — ends), on every path.
func ruleKeepAliveCloses(c *Ctx, rule string) {
	f := "transport.(*websocketPeer).sendHandlerKeepAlive"
	missed := clause("two pings unanswered", F(`^\(call:sync/atomic\.LoadInt32\(&local:pendingPongs\) < 2\)$`))
	c.Reach(rule, f, "unanswered keep-alive closes the connection", ReachSpec{FromEdge: &missed, Stop: `^call:invoke:transport\.WebsocketConnection\.Close\[%w\.conn\]\(\)$`, Target: "EXIT", Want: false})
	c.Reach(rule, f, "no further ping once two are unanswered", ReachSpec{FromEdge: &missed, Target: `^call:invoke:transport\.WebsocketConnection\.WriteMessage\[%w\.conn\]\(9, `, Want: false})
}

// rulePayloadDecodeTarget: a payload-passthru body is decoded into a value, or into a pointer that is checked for
// nil before its fields are read (an encoded null decodes to a nil pointer).
func rulePayloadDecodeTarget(c *Ctx, rule string) {
	n := 0
	for _, fn := range c.P.FuncsIn("client") {
		name := ir.ShortName(fn)
		for _, in := range ir.Instrs(fn) {
			call, ok := in.(*ssa.Call)
			if !ok || !strings.Contains(ir.InstrDesc(in), "serialize.Serializer.DeserializeDataItem[") || len(call.Call.Args) != 2 {
				continue
			}
			a, ok := ir.StripIface(call.Call.Args[1]).(*ssa.Alloc)
			if !ok {
				c.R.Unknown(rule, name, "decode target of "+ir.InstrDesc(in), c.pos(in), "decode target is not a local variable")
				continue
			}
			n++
			if _, isPtr := a.Type().(*types.Pointer).Elem().Underlying().(*types.Pointer); !isPtr {
				c.R.OK(rule, name, "payload decoded into a value: "+ir.Desc(a), c.pos(in), "")
				continue
			}
			local := strings.TrimPrefix(ir.Desc(a), "&")
			nilChecked := ir.Clause{Name: "decoded payload is not nil", Edges: []ir.EdgeSpec{F(`^\(` + q(local) + ` == nil\)$`)}}
			used := 0
			for _, ex := range ir.Exits(fn, false) {
				if !strings.Contains(ir.InstrDesc(ex), local+".") {
					continue
				}
				used++
				ok, w := ir.GuardedBy(fn, ex, nilChecked)
				c.R.Check(ok && w.CutCount > 0, rule, name, fmt.Sprintf("fields of the decoded payload are read only after the nil check (return #%d)", used), c.pos(ex),
					"the payload is decoded into the pointer "+local+" and its fields are read without a nil check: an encoded null makes the client's receive loop dereference nil")
			}
		}
	}
	c.R.Check(n >= 2, rule, "client", "payload decode sites enumerated", "-", fmt.Sprintf("found %d", n))
}

// ruleFeatureTable: what HasFeature answers is what the session announced: one feature set per role (allocated inside
// the loop over the roles), a feature entered only when its announced value is the boolean true, and HasFeature a
// plain lookup in that role's set. Routing decisions (receive_progress, call canceling, call timeout, disclosure,
// payload passthru) all go through HasFeature.
func ruleFeatureTable(c *Ctx, rule string) {
	f := "wamp.(*Session).setRoles"
	inRoleLoop := clause("inside the loop over the announced roles", T(`^next:range\(call:wamp\.AsDict\(%details\["roles"\],ok#0\)#0\)#more$`))
	c.Guard(rule, f, "a feature set is allocated per role", `^val:makemap\(map\[string\]struct\{\}\)$`, 1, inRoleLoop)
	c.Guard(rule, f, "feature recorded", `^mapupdate:makemap\(map\[string\]struct\{\}\)\[range\(.*\)#k\]=`, 1, clause("announced with the value true", T(`^range\(.*\)#v\.\(bool\),ok#0$`)))
	c.Has(rule, f, "the role's own feature set is stored under the role", `^mapupdate:makemap\(map\[string\]map\[string\]struct\{\}\)\[range\(call:wamp\.AsDict\(%details\["roles"\],ok#0\)#0\)#k\]=makemap\(map\[string\]struct\{\}\)$`, 1)
	h := "wamp.(*Session).HasFeature"
	c.Has(rule, h, "HasFeature looks the role up", `^val:%s\.roles\[%role\],ok$`, 1)
	c.Has(rule, h, "HasFeature answers membership of the feature in that role's set", `^return:%s\.roles\[%role\],ok#0\[%feature\],ok#1$`, 1)
}

// ruleEndSessionGoodbye: a session the router ends on its own (protocol violation) is told to stop with a GOODBYE of
// its own — never with the nil/NoGoodbye or shutdown goodbye, which the handler reads as realm shutdown (and then
// skips the removal from dealer and broker).
func ruleEndSessionGoodbye(c *Ctx, rule string) {
	f := "router.endSession"
	c.Has(rule, f, "endSession ends the receive side with a fresh GOODBYE", `^call:wamp\.\(\*Session\)\.EndRecv\(%sess, new\(wamp\.Goodbye\)\)$`, 1)
	c.Fields(rule, f, "that GOODBYE carries the reason", "wamp.Goodbye", nil, map[string]string{"Reason": `^%reason$`}, 1)
	// every EndRecv in the router names its goodbye: nil only where the reviewed shutdown paths pass the shutdown goodbye
	for _, s := range c.CallSites(`^wamp\.\(\*Session\)\.EndRecv$`) {
		caller := ir.ShortName(s.Caller)
		if !strings.HasPrefix(caller, "router.") {
			continue
		}
		d := ir.InstrDesc(s.In)
		c.R.Check(!strings.HasSuffix(d, ", nil)"), rule, caller, "EndRecv is given a GOODBYE: "+d, c.pos(s.In),
			"EndRecv(nil) makes Goodbye() return NoGoodbye, which the session handler treats as realm shutdown: the session is not removed from dealer and broker")
	}
}

// ruleTestamentBuckets: a testament is appended to the list of its own scope, and a bucket that was changed (added to
// or flushed) is written back to the table or deleted from it on every path.
func ruleTestamentBuckets(c *Ctx, rule string) {
	ta := rlm + "testamentAdd$1"
	for _, sc := range []string{"destroyed", "detached"} {
		c.AllMatch(rule, ta, "a "+sc+"-scope testament extends the "+sc+" list", `^store:&local:testaments\.&`+sc+`=`, `^store:&local:testaments\.&`+sc+`=call:builtin:append\(\^r\.testaments\[\^caller\]\.`+sc+`, `, 1)
	}
	c.Reach(rule, ta, "the extended bucket is stored back", ReachSpec{From: `^store:&local:testaments\.&(destroyed|detached)=`, Stop: `^mapupdate:\^r\.testaments\[\^caller\]=`, Target: "EXIT", Want: false})
	tf := rlm + "testamentFlush$1"
	c.Reach(rule, tf, "the flushed bucket is stored back or deleted", ReachSpec{From: `^store:&local:testaments\.&(destroyed|detached)=nil$`, Stop: `^mapupdate:\^r\.testaments\[\^caller\]=|^call:builtin:delete\(\^r\.testaments, \^caller\)$`, Target: "EXIT", Want: false})
}

// ruleRealmWiring: broker and dealer of a realm get the realm's own options in the right positions.
func ruleRealmWiring(c *Ctx, rule string) {
	ar := "router.(*router).addRealm"
	c.Has(rule, ar, "dealer built with (log, StrictURI, AllowDisclose, debug)", `^call:router\.newDealer\(%r\.log, %config\.StrictURI, %config\.AllowDisclose, %r\.debug\)$`, 1)
	c.Has(rule, ar, "broker built with (log, StrictURI, AllowDisclose, debug, filter factory, history configs)", `^call:router\.newBroker\(%r\.log, %config\.StrictURI, %config\.AllowDisclose, %r\.debug, %config\.PublishFilterFactory, %config\.TopicEventHistoryConfigs\)$`, 1)
	c.Fields(rule, "router.newDealer", "dealer literal", "router.dealer", nil, map[string]string{"strictURI": `^%strictURI$`, "allowDisclose": `^%allowDisclose$`}, 1)
	c.Fields(rule, "router.newBroker", "broker literal", "router.broker", nil, map[string]string{"strictURI": `^%strictURI$`, "allowDisclose": `^%allowDisclose$`}, 1)
}

// ruleLastRecvID: the last received request id is replaced by exactly the id that was accepted as new.
func ruleLastRecvID(c *Ctx, rule string) {
	f := "wamp.(*Session).UpdateLastRecvIDLocked"
	c.Guard(rule, f, "last received id updated", `^store:%s\.&lastRecvID=`, 1, clause("id is new", T(`^call:wamp\.\(\*Session\)\.IsNewRecvID\(%s, %id\)$`)))
	c.AllMatch(rule, f, "the id stored is the id accepted", `^store:%s\.&lastRecvID=`, `^store:%s\.&lastRecvID=%id$`, 1)
	c.Guard(rule, f, "reports new", `^return:true$`, 1, clause("id is new", T(`^call:wamp\.\(\*Session\)\.IsNewRecvID\(%s, %id\)$`)))
}

// ruleRecvHandOver: once a rawsocket peer is closed its receive loop hands the last message over for a bounded time
// only (nobody may be reading any more) and then ends.
func ruleRecvHandOver(c *Ctx, rule string) {
	rh := "transport.(*rawSocketPeer).recvHandler"
	c.HasNot(rule, rh, "no unconditional hand-over to the router", `^send:%rs\.rd<-`)
	c.Has(rule, rh, "hand-over while open has the closed signal as alternative", `^select\{send:%rs\.rd<-.*;recv:%rs\.closed\}$`, 1)
	c.Has(rule, rh, "hand-over after close is bounded by a timer", `^select\{send:%rs\.rd<-.*;recv:call:time\.NewTimer\(1000000000\)\.C\}$`, 1)
}

// phiLeaves flattens nested phis (and interface conversions) to the values that can flow into v.
func phiLeaves(v ssa.Value, seen map[ssa.Value]bool, out *[]ssa.Value) {
	if seen[v] {
		return
	}
	seen[v] = true
	switch x := v.(type) {
	case *ssa.Phi:
		for _, e := range x.Edges {
			phiLeaves(e, seen, out)
		}
	case *ssa.MakeInterface:
		phiLeaves(x.X, seen, out)
	case *ssa.ChangeInterface:
		phiLeaves(x.X, seen, out)
	default:
		*out = append(*out, v)
	}
}

// ruleWebsocketServerProtocols: the router's websocket handler hands the peer only a serializer that was selected by
// the negotiated sub-protocol (a fresh serializer of the three built-in protocols or the entry of the registered
// protocol table); a connection whose sub-protocol selects nothing never gets a peer built from an unset value.
func ruleWebsocketServerProtocols(c *Ctx, r string) {
	hw := "router.(*WebsocketServer).handleWebsocket"
	fn := c.Fn(r, hw)
	if fn == nil {
		return
	}
	calls := matches(fn, `^call:transport\.NewWebsocketPeer\(`)
	if len(calls) == 0 {
		c.R.Unknown(r, hw, "websocket peer construction", c.P.FuncPos(fn), "no call of transport.NewWebsocketPeer found")
		return
	}
	okLeaf := re(`^new\(serialize\.\w+\)$|^%s\.protocols\[.*\],ok#0\.serializer$`)
	for _, in := range calls {
		call := in.(*ssa.Call)
		if len(call.Call.Args) < 2 {
			c.R.Unknown(r, hw, "websocket peer construction", c.pos(in), "unexpected argument list")
			continue
		}
		var leaves []phiLeaf
		phiLeavesAt(call.Call.Args[1], nil, 0, map[ssa.Value]bool{}, &leaves)
		var bad []string
		for _, l := range leaves {
			if d := ir.Desc(l.val); !okLeaf.MatchString(d) && !leafInfeasible(fn, in, l) {
				bad = append(bad, d)
			}
		}
		sort.Strings(bad)
		c.R.Check(len(bad) == 0 && len(leaves) > 0, r, hw, "serializer of a websocket peer is one selected by the negotiated sub-protocol", c.pos(in),
			"the serializer given to the peer can be "+strings.Join(bad, ", ")+", which is not selected by a sub-protocol (an unset value is nil: the peer's handlers call it and panic, or frames are exchanged in a format the client never agreed to)")
	}
}

// ruleCompletionSignalled: an action closure that signals its completion by closing a captured channel does so on
// every path — the poster waits on that channel (the meta procedure handler, AddRealm/RemoveRealm, Close), so one path
// without the close blocks the poster for ever.
func ruleCompletionSignalled(c *Ctx, rule string) {
	n := 0
	for _, fn := range c.P.FuncsIn("router") {
		if fn.Parent() == nil {
			continue
		}
		seen := map[string]bool{}
		for _, in := range matches(fn, `^call:builtin:close\(\^\w+\)$`) {
			d := ir.InstrDesc(in)
			if seen[d] {
				continue
			}
			seen[d] = true
			call, ok := in.(*ssa.Call)
			if !ok {
				continue // a deferred close runs on every exit
			}
			fv, ok := call.Call.Args[0].(*ssa.FreeVar)
			if !ok {
				// captured by reference: the load of the free variable
				if u, ok2 := call.Call.Args[0].(*ssa.UnOp); ok2 {
					fv, ok = u.X.(*ssa.FreeVar)
				}
				if !ok {
					continue
				}
			}
			_ = fv
			n++
			ch := strings.TrimSuffix(strings.TrimPrefix(d, "call:builtin:close("), ")")
			c.Reach(rule, ir.ShortName(fn), "completion channel "+ch+" closed (or sent on) on every path", ReachSpec{Stop: "^" + q(d) + "$|^send:" + q(ch) + "<-", Target: "EXIT", Want: false})
		}
	}
	c.R.Check(n >= 15, rule, "router", "action closures with a completion channel enumerated", "-", fmt.Sprintf("found %d, 23 confirmed by reading (floor 15)", n))
}

// ruleQueueDefault: a listener's unset (zero) outbound queue size is replaced by the default before the peer is
// built, in the accept path itself (the field is public and may be assigned after construction), so every
// transport's session has a buffered outbound queue like the in-process one.
func ruleQueueDefault(c *Ctx, rule string) {
	for _, x := range []struct{ fn, callee string }{
		{"router.(*RawSocketServer).handleRawSocket", `^call:transport\.AcceptRawSocket\(`},
		{"router.(*WebsocketServer).handleWebsocket", `^call:transport\.NewWebsocketPeer\(`}} {
		fn := c.Fn(rule, x.fn)
		if fn == nil {
			continue
		}
		calls := matches(fn, x.callee)
		if len(calls) == 0 {
			c.R.Unknown(rule, x.fn, "peer construction", c.P.FuncPos(fn), "no call matching "+x.callee)
			continue
		}
		for _, in := range calls {
			found := false
			for _, a := range in.(*ssa.Call).Call.Args {
				var leaves []ssa.Value
				phiLeaves(a, map[ssa.Value]bool{}, &leaves)
				hasField, hasDefault := false, false
				for _, l := range leaves {
					d := ir.Desc(l)
					if strings.HasSuffix(d, ".OutQueueSize") {
						hasField = true
					} else if k, ok := l.(*ssa.Const); ok && k.Value != nil && ir.ConstStr(k) != "0" {
						hasDefault = true
					}
				}
				if !hasField {
					continue
				}
				found = true
				tested, _ := ir.GuardedBy(fn, in, clause("queue size tested for zero", T(`^\(%s\.OutQueueSize (==|<) [01]\)$`), F(`^\(%s\.OutQueueSize (==|<) [01]\)$`), T(`^\(0 < %s\.OutQueueSize\)$`), F(`^\(0 < %s\.OutQueueSize\)$`)))
				c.R.Check(hasDefault && tested, rule, x.fn, "zero outbound queue size replaced by the default before the peer is built", c.pos(in),
					"the configured OutQueueSize reaches the peer constructor without a zero test and default in this function: a server whose field is (left or set to) 0 gives its sessions an unbuffered outbound queue and the router's non-blocking sends drop their messages")
			}
			if !found {
				c.R.Unknown(rule, x.fn, "zero outbound queue size replaced by the default before the peer is built", c.pos(in), "no argument of the peer constructor derives from OutQueueSize")
			}
		}
	}
}

// ruleClientLoggerDefault: ConnectNet never hands a nil logger to a transport (the transports log from their own
// goroutines without a nil test: a nil logger turns every logged protocol error into a crash of the process).
func ruleClientLoggerDefault(c *Ctx, rule string) {
	cn := "client.ConnectNet"
	fn := c.Fn(rule, cn)
	if fn == nil {
		return
	}
	calls := matches(fn, `^call:transport\.Connect(Websocket|RawSocket)Peer\(`)
	c.R.Check(len(calls) >= 3, rule, cn, "transport constructors enumerated", c.P.FuncPos(fn), fmt.Sprintf("found %d calls of transport.Connect*Peer, 3 confirmed by reading", len(calls)))
	const nilTest = `^\((%cfg\.Logger|local:\w+) == nil\)$`
	isNil := clause("no logger configured", T(nilTest))
	for i, in := range calls {
		var arg ssa.Value
		for _, a := range in.(*ssa.Call).Call.Args {
			if strings.HasSuffix(ir.TypeStr(a.Type()), "StdLog") {
				arg = a
			}
		}
		label := fmt.Sprintf("transport #%d never gets a nil logger", i)
		if arg == nil {
			c.R.Unknown(rule, cn, label, c.pos(in), "no logger argument found")
			continue
		}
		var leaves []ssa.Value
		phiLeaves(arg, map[ssa.Value]bool{}, &leaves)
		hasDefault, hasField := false, false
		for _, l := range leaves {
			if d := ir.Desc(l); strings.HasPrefix(d, "call:log.New(") {
				hasDefault = true
			} else {
				hasField = true
			}
		}
		switch {
		case hasDefault && hasField:
			// logger := cfg.Logger; if logger == nil { logger = log.New(..) }: the value is selected by a nil test
			g, _ := ir.GuardedBy(fn, in, clause("logger tested for nil", T(nilTest), F(nilTest)))
			c.R.Check(g, rule, cn, label, c.pos(in), "the logger given to the transport is either the configured one or a default, but no nil test selects between them")
		case hasDefault:
			c.R.OK(rule, cn, label, c.pos(in), "")
		default:
			// the configuration copy itself is completed before use
			c.Reach(rule, cn, label+" (missing logger replaced in the configuration copy first)", ReachSpec{FromEdge: &isNil,
				Stop: `^store:&local:cfg\.&Logger=call:log\.New\(`, Target: "^" + q(ir.InstrDesc(in)) + "$", Want: false})
		}
	}
}

// phiLeaf is a value that can flow into a phi through the edge from the idx-th predecessor of the phi's block.
type phiLeaf struct {
	val ssa.Value
	phi *ssa.Phi
	idx int
}

func phiLeavesAt(v ssa.Value, ph *ssa.Phi, idx int, seen map[ssa.Value]bool, out *[]phiLeaf) {
	if seen[v] {
		return
	}
	seen[v] = true
	switch x := v.(type) {
	case *ssa.Phi:
		for i, e := range x.Edges {
			phiLeavesAt(e, x, i, seen, out)
		}
	case *ssa.MakeInterface:
		phiLeavesAt(x.X, ph, idx, seen, out)
	case *ssa.ChangeInterface:
		phiLeavesAt(x.X, ph, idx, seen, out)
	default:
		*out = append(*out, phiLeaf{v, ph, idx})
	}
}

// leafInfeasible: the alternative l of a phi cannot be the value at instruction `at`: entering the phi's block through
// the edge that selects it, `at` is unreachable for the path-sensitive walker (a flag that travels with the value —
// the "ok" result of an inlined helper — is tested before `at`).
func leafInfeasible(fn *ssa.Function, at ssa.Instruction, l phiLeaf) bool {
	if l.phi == nil || l.idx >= len(l.phi.Block().Preds) {
		return false
	}
	pred := l.phi.Block().Preds[l.idx]
	for si, sc := range pred.Succs {
		if sc == l.phi.Block() {
			w := (&ir.Walk{}).FromEdge(pred, si)
			if w.Reached[at] {
				return false
			}
		}
	}
	return true
}
