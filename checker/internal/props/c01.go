package props

import (
	"strings"

	"golang.org/x/tools/go/ssa"

	"nxcheck/internal/ir"
)

func init() {
	register(&Check{
		ID: "C01",
		Decides: "that no EVENT is sent around the publisher-exclusion / filter / topic-match guards of syncPublish and syncPubEvent; that the session shown to the filter, " +
			"the subscription id, publication id, topic detail and payload of an EVENT have the right provenance; that URI validation precedes the hand-off of SUBSCRIBE and PUBLISH; " +
			"that the exact/prefix/wildcard tables are selected consistently by match policy; that a new subscription id is generated only on table miss; " +
			"that UNSUBSCRIBE has effects only for a member and otherwise answers no_such_subscription; that the built-in publish filter can say 'allowed' only after consulting every exclude/eligible list; that a departed session is removed from the broker before its peer is closed.",
		NotDecided: "exactly-once delivery over histories, correctness of PrefixMatch/WildcardMatch/Allowed themselves (C19), behaviour of user-supplied filters.",
		Run: runC01,
	})
}

const (
	brk    = `router.(*broker).`
	subKey = `range\(%sub\.subscribers\)#k`
)

func runC01(c *Ctx) {
	// R1: exclusion and eligibility guards in syncPubEvent
	const r1 = "C01.R1 event send guarded by exclusion and filter"
	fn := brk + "syncPubEvent"
	evSend := `^call:router\.\(\*broker\)\.trySend\(%b, ` + subKey + `, call:router\.prepareEvent\(`
	c.Guard(r1, fn, "send EVENT to subscriber", evSend, 1,
		clause("not (subscriber is publisher and exclude_me)", F(`^\(%pub == `+subKey+`\)$`), F(`^%excludePublisher$`)),
		clause("no filter or filter allows", T(`^\(%filter == nil\)$`), T(`^call:invoke:router\.PublishFilter\.Allowed\[%filter\]\(`)),
	)
	// the event sent is prepared for this very subscriber with the publication's parameters
	c.Has(r1, fn, "event prepared for the receiving subscriber",
		`^call:router\.\(\*broker\)\.trySend\(%b, `+subKey+`, call:router\.prepareEvent\(%pub, %msg, %pubID, %sub, %sendTopic, %disclose, %eventDetails, `+subKey+`\)\)$`, 1)
	// provenance of the session shown to the filter
	c.Has(r1, fn, "filter sees the subscriber's id", `^store:new\(wamp\.Session\)\.&ID=`+subKey+`\.ID$`, 1)
	c.Has(r1, fn, "filter sees the subscriber's details", `^store:new\(wamp\.Session\)\.&Details=`+subKey+`\.Details$`, 1)
	c.R.Floor(r1, 5)

	// R2: table/match agreement in syncPublish (and siblings syncPubMeta, subMatch)
	const r2 = "C01.R2 matching tables and match predicates"
	ruleMatchPredicates(c, r2)
	c.R.Floor(r2, 8)

	const r3 = "C01.R3 match policy selects the table consistently"
	ruleBrokerTables(c, r3)
	c.R.Floor(r3, 12)

	// R4: provenance in prepareEvent / publish
	const r4 = "C01.R4 EVENT/PUBLISHED provenance"
	pe := "router.prepareEvent"
	c.Fields(r4, pe, "EVENT literal", "wamp.Event", nil, map[string]string{
		"Publication":  `^%pubID$`,
		"Subscription": `^%sub\.id$`,
		"Arguments":    `^(%msg\.Arguments|call:slices\.Clone\(%msg\.Arguments\))$`,
		"ArgumentsKw":  `^(%msg\.ArgumentsKw|makemap\(map\[string\]any\))$`,
	}, 1)
	c.Guard(r4, pe, "topic detail", `^mapupdate:new\(wamp\.Event\)\.Details\["topic"\]=`, 1, clause("sendTopic", T(`^%sendTopic$`)))
	c.Has(r4, pe, "topic detail is the published topic", `^mapupdate:new\(wamp\.Event\)\.Details\["topic"\]=%msg\.Topic$`, 1)
	c.Has(r4, pe, "kwargs copy source", `^call:maps\.Copy\(makemap\(map\[string\]any\), %msg\.ArgumentsKw\)$`, 1)
	c.AllMatch(r4, pe, "every topic detail write carries the published topic", `^mapupdate:.*\["topic"\]=`, `\["topic"\]=%msg\.Topic$`, 1)
	pub := brk + "publish"
	// one publication id: generated once, passed to the action and put into PUBLISHED
	c.Has(r4, pub, "single GlobalID call", `^call:wamp\.GlobalID\(\)$`, 1)
	if f := c.Fn(r4, pub); f != nil {
		n := len(matches(f, `^call:wamp\.GlobalID\(\)$`))
		c.R.Check(n == 1, r4, pub, "publication id generated exactly once", c.P.FuncPos(f), "publish must call GlobalID exactly once")
	}
	c.Fields(r4, pub, "PUBLISHED literal", "wamp.Published", nil, map[string]string{
		"Request": `^%msg\.Request$`, "Publication": `^call:wamp\.GlobalID\(\)$`,
	}, 1)
	c.Has(r4, pub+"$1", "action gets publisher, message, publication id", `^call:router\.\(\*broker\)\.syncPublish\(\^b, \^pub, \^msg, \^pubID, \^excludePub, \^disclose, \^filter, \^details\)$`, 1)
	c.R.Floor(r4, 10)

	// R5: URI validation precedes the hand-off
	const r5 = "C01.R5 URI validation before hand-off"
	c.Guard(r5, pub, "hand-off to broker goroutine", `^send:%b\.actionChan<-closure:`, 1,
		clause("topic is a valid exact URI", T(`^call:wamp\.\(URI\)\.ValidURI\(%msg\.Topic, %b\.strictURI, ""\)$`)))
	sub := brk + "subscribe"
	validSub := `^call:wamp\.\(URI\)\.ValidURI\(%msg\.Topic, %b\.strictURI, call:wamp\.AsString\(%msg\.Options\["match"\]\)#0\)$`
	c.Guard(r5, sub, "hand-off to broker goroutine", `^send:%b\.actionChan<-closure:`, 1, clause("topic valid for the requested match policy", T(validSub)))
	c.Has(r5, sub+"$1", "action uses the validated match policy", `^call:router\.\(\*broker\)\.syncSubscribe\(\^b, \^sub, \^msg, \^match\)$`, 1)
	c.Has(r5, sub, "validated policy is the one handed off", `^store:&local:match=call:wamp\.AsString\(%msg\.Options\["match"\]\)#0$`, 1)
	invalidURI := fieldIs("Error", `^"wamp\.error\.invalid_uri"$`)
	c.Fields(r5, sub, "invalid_uri reply", "wamp.Error", invalidURI, map[string]string{
		"Request": `^%msg\.Request$`, "Type": `^call:wamp\.\(\*Subscribe\)\.MessageType\(%msg\)$`,
	}, 1)
	c.Guard(r5, sub, "invalid_uri reply only when invalid", `^call:router\.\(\*broker\)\.trySend\(%b, %sub, new\(wamp\.Error\)\)$`, 1, clause("topic invalid", F(validSub)))
	c.Fields(r5, pub, "invalid_uri reply", "wamp.Error", invalidURI, map[string]string{
		"Request": `^%msg\.Request$`, "Type": `^call:wamp\.\(\*Publish\)\.MessageType\(%msg\)$`,
	}, 1)
	ruleURIPatterns(c, r5) // "valid URI" is what the six patterns and their dispatch say
	c.R.Floor(r5, 8)

	// R6: stable subscription id
	const r6 = "C01.R6 subscription id generated only on table miss"
	fi := brk + "syncInitSubscription"
	c.Guard(r6, fi, "new id", `^call:wamp\.\(\*IDGen\)\.Next\(%b\.idGen\)$`, 3,
		clause("table miss", F(`^%b\.(pfxT|wcT|t)opicSubscription\[%topic\],ok#1$`)))
	ss := brk + "syncSubscribe"
	c.Fields(r6, ss, "SUBSCRIBED literal", "wamp.Subscribed", nil, map[string]string{
		"Request":      `^%msg\.Request$`,
		"Subscription": `^call:router\.\(\*broker\)\.syncInitSubscription\(%b, %msg\.Topic, %match, %subscriber\)#0\.id$`,
	}, 2)
	c.R.Floor(r6, 7)

	const r7 = "C01.R7 unsubscribe only for a member"
	ruleUnsubscribeMember(c, r7)
	c.R.Floor(r7, 14)

	// R8: the built-in publish filter: an event is allowed only after all four lists were consulted
	const r8 = "C01.R8 simple publish filter consults every list"
	al := "router.(*simplePublishFilter).Allowed"
	blAttr := `call:wamp\.AsString\(%sub\.Details\[range\(%f\.blMap\)#k\]\)#0`
	wlAttr := `call:wamp\.AsString\(%sub\.Details\[range\(%f\.wlMap\)#k\]\)#0`
	c.Guard(r8, al, "allow", `^return:true$`, 1,
		clause("session id not excluded", F(`^call:slices\.Contains\(%f\.blIDs, %sub\.ID\)$`)),
		clause("no eligible-id list, or session id eligible", T(`^\(call:builtin:len\(%f\.wlIDs\) == 0\)$`), T(`^call:slices\.Contains\(%f\.wlIDs, %sub\.ID\)$`)),
		clause("all exclude_<attr> lists consulted", F(`^next:range\(%f\.blMap\)#more$`)),
		clause("all eligible_<attr> lists consulted", F(`^next:range\(%f\.wlMap\)#more$`)))
	deny := func(label string, cl ir.Clause) {
		c.Reach(r8, al, label, ReachSpec{FromEdge: &cl, Target: `^return:true$|^val:next:range\(`, Want: false})
	}
	deny("excluded attribute value denies", clause("value in exclude list", T(`^call:slices\.Contains\(range\(%f\.blMap\)#v, `+blAttr+`\)$`)))
	deny("missing eligible attribute denies", clause("no value for eligible attribute", T(`^\(`+wlAttr+` == ""\)$`)))
	deny("value outside eligible list denies", clause("value not in eligible list", F(`^call:slices\.Contains\(range\(%f\.wlMap\)#v, `+wlAttr+`\)$`)))
	deny("excluded session id denies", clause("id in exclude list", T(`^call:slices\.Contains\(%f\.blIDs, %sub\.ID\)$`)))
	nf := "router.NewSimplePublishFilter"
	// the exclude_<attr> lists fill the map the filter denies by, the eligible_<attr> lists the map it requires: the map
	// updated under each option prefix is the one stored in the corresponding field (compared by allocation identity;
	// the attribute-map helper is a closure, a function or inlined code, all normalised to the same shape)
	if fn := c.Fn(r8, nf); fn != nil {
		allocs := func(v ssa.Value) map[ssa.Value]bool {
			out, seen := map[ssa.Value]bool{}, map[ssa.Value]bool{}
			var walk func(ssa.Value)
			walk = func(v ssa.Value) {
				if seen[v] {
					return
				}
				seen[v] = true
				switch x := v.(type) {
				case *ssa.Phi:
					for _, e := range x.Edges {
						walk(e)
					}
				case *ssa.MakeMap:
					out[x] = true
				}
			}
			walk(v)
			return out
		}
		filled := map[string]map[ssa.Value]bool{}
		stored := map[string]map[ssa.Value]bool{}
		for _, in := range ir.Instrs(fn) {
			switch x := in.(type) {
			case *ssa.MapUpdate:
				k := ir.Desc(x.Key)
				for _, p := range []string{"exclude_", "eligible_"} {
					if strings.Contains(k, `len("`+p+`")`) {
						filled[p] = allocs(x.Map)
					}
				}
			case *ssa.Store:
				d := ir.Desc(x.Addr)
				for _, f := range []string{"blMap", "wlMap"} {
					if d == "new(router.simplePublishFilter).&"+f {
						stored[f] = allocs(x.Val)
					}
				}
			}
		}
		same := func(a, b map[ssa.Value]bool) bool {
			if len(a) == 0 || len(a) != len(b) {
				return false
			}
			for k := range a {
				if !b[k] {
					return false
				}
			}
			return true
		}
		c.R.Check(same(filled["exclude_"], stored["blMap"]), r8, nf, "filter literal: the exclude_<attr> lists are the deny map", c.P.FuncPos(fn), "the map filled from exclude_<attr> options is not the one stored in simplePublishFilter.blMap")
		c.R.Check(same(filled["eligible_"], stored["wlMap"]), r8, nf, "filter literal: the eligible_<attr> lists are the require map", c.P.FuncPos(fn), "the map filled from eligible_<attr> options is not the one stored in simplePublishFilter.wlMap")
		c.Has(r8, nf, "exclude_<attr> options selected by their prefix", `^call:strings\.HasPrefix\(range\(%msg\.Options\)#k, "exclude_"\)$`, 1)
		c.Has(r8, nf, "eligible_<attr> options selected by their prefix", `^call:strings\.HasPrefix\(range\(%msg\.Options\)#k, "eligible_"\)$`, 1)
	}
	c.Has(r8, nf, "exclude ids read from option 'exclude'", `^call:wamp\.AsID\(call:wamp\.AsList\(%msg\.Options\["exclude"\],ok#0\)#0\[`, 1)
	c.Has(r8, nf, "eligible ids read from option 'eligible'", `^call:wamp\.AsID\(call:wamp\.AsList\(%msg\.Options\["eligible"\],ok#0\)#0\[`, 1)
	c.R.Floor(r8, 12)

	// R9: a departed session leaves the delivery set before its peer is closed
	const r9 = "C01.R9 departed sessions are removed from the broker"
	ruleSessionRemoval(c, r9)
	ruleBrokerRemoval(c, r9)
	c.R.Floor(r9, 18)

	const r12 = "C01.R12 eligibility lists are compared with authenticated attributes; topics are matched by the reviewed match functions"
	ruleSessionDetailsOrder(c, r12)
	ruleMatchFunctions(c, r12)
	c.R.Floor(r12, 8)

	const r11 = "C01.R11 exclude_me is honoured whenever the publisher gives it"
	pb := brk + "publish"
	given := clause("exclude_me option given as a boolean", T(`^%msg\.Options\["exclude_me"\]\.\(bool\),ok#1$`))
	c.Reach(r11, pb, "a given exclude_me value reaches the hand-off", ReachSpec{FromEdge: &given, Stop: `^store:&local:excludePub=%msg\.Options\["exclude_me"\]\.\(bool\),ok#0$`, Target: `^send:%b\.actionChan<-closure:`, Want: false})
	c.AllMatch(r11, pb, "publisher exclusion is either the default or the option's value", `^store:&local:excludePub=`, `^store:&local:excludePub=(true|%msg\.Options\["exclude_me"\]\.\(bool\),ok#0)$`, 2)
	c.Before(r11, pb, "default (exclude the publisher) is set before the option is examined", `^store:&local:excludePub=true$`, `^store:&local:excludePub=%msg`)
	c.R.Floor(r11, 3)

	const r10 = "C01.R10 an in-process subscriber cannot change the payload other subscribers (or the publisher) see"
	ruleLocalCopies(c, r10)
	c.R.Floor(r10, 8)
}

func ruleBrokerTables(c *Ctx, r3 string) {
	// R3: match policy <-> table agreement
	fi := brk + "syncInitSubscription"
	isPfx, isWc := `^\(%match == "prefix"\)$`, `^\(%match == "wildcard"\)$`
	c.Guard(r3, fi, "insert into prefix table", `^mapupdate:%b\.pfxTopicSubscription\[%topic\]=`, 1, clause("match == prefix", T(isPfx)))
	c.Guard(r3, fi, "insert into wildcard table", `^mapupdate:%b\.wcTopicSubscription\[%topic\]=`, 1, clause("match == wildcard", T(isWc)))
	c.Guard(r3, fi, "insert into exact table", `^mapupdate:%b\.topicSubscription\[%topic\]=`, 1,
		clause("match != prefix", F(isPfx)), clause("match != wildcard", F(isWc)))
	fd := brk + "syncDelSubscription"
	dPfx, dWc := `^\(%sub\.match == "prefix"\)$`, `^\(%sub\.match == "wildcard"\)$`
	c.Guard(r3, fd, "delete from prefix table", `^call:builtin:delete\(%b\.pfxTopicSubscription, %sub\.topic\)$`, 1, clause("sub.match == prefix", T(dPfx)))
	c.Guard(r3, fd, "delete from wildcard table", `^call:builtin:delete\(%b\.wcTopicSubscription, %sub\.topic\)$`, 1, clause("sub.match == wildcard", T(dWc)))
	c.Guard(r3, fd, "delete from exact table", `^call:builtin:delete\(%b\.topicSubscription, %sub\.topic\)$`, 1,
		clause("sub.match != prefix", F(dPfx)), clause("sub.match != wildcard", F(dWc)))
	c.Has(r3, fd, "delete id->subscription", `^call:builtin:delete\(%b\.subscriptions, %sub\.id\)$`, 1)
	// the subscription created for a table carries the policy it was filed under
	c.Has(r3, fi, "new subscription records topic and match", `^call:router\.newSubscription\(call:wamp\.\(\*IDGen\)\.Next\(%b\.idGen\), %subscriber, %topic, %match\)$`, 3)
	c.Fields(r3, "router.newSubscription", "subscription literal", "router.subscription", nil, map[string]string{
		"id": `^%id$`, "topic": `^%topic$`, "match": `^%match$`,
	}, 1)
}

func ruleUnsubscribeMember(c *Ctx, r7 string) {
	// R7: UNSUBSCRIBE acts only for a member
	su := brk + "syncUnsubscribe"
	member := clause("sender is a subscriber of the named subscription",
		T(`^%b\.subscriptions\[%msg\.Subscription\],ok#0\.subscribers\[%subscriber\],ok#1$`))
	exists := clause("subscription exists", T(`^%b\.subscriptions\[%msg\.Subscription\],ok#1$`))
	for _, e := range [][2]string{
		{"UNSUBSCRIBED reply", `^call:router\.\(\*broker\)\.trySend\(%b, %subscriber, new\(wamp\.Unsubscribed\)\)$`},
		{"subscription deletion", `^call:router\.\(\*broker\)\.syncDelSubscription\(`},
		{"meta events", `^call:router\.\(\*broker\)\.syncPubSubMeta\(`},
		{"remove subscriber", `^call:builtin:delete\(.*\.subscribers, %subscriber\)$`},
		{"remove from session's set", `^call:builtin:delete\(%b\.sessionSubIDSet`},
	} {
		c.Guard(r7, su, e[0], e[1], 1, exists, member)
	}
	c.Fields(r7, su, "no_such_subscription reply", "wamp.Error", fieldIs("Error", `^"wamp\.error\.no_such_subscription"$`), map[string]string{
		"Request": `^%msg\.Request$`, "Type": `^call:wamp\.\(\*Unsubscribe\)\.MessageType\(%msg\)$`,
	}, 1)
	c.Fields(r7, su, "UNSUBSCRIBED literal", "wamp.Unsubscribed", nil, map[string]string{"Request": `^%msg\.Request$`}, 1)
	c.Has(r7, su, "removes the sender, not another session", `^call:builtin:delete\(%b\.subscriptions\[%msg\.Subscription\],ok#0\.subscribers, %subscriber\)$`, 1)
}

// ruleMatchPredicates: events and meta events are delivered through the exact table under the published topic, and
// through the prefix and wildcard tables under keys that the published topic matches (topic as receiver, key as
// argument), at exactly three delivery sites per function.
func ruleMatchPredicates(c *Ctx, r2 string) {
	type tm struct {
		fn, topic, recv string
		call            func(sub, sendTopic string) string
	}
	sites := []tm{
		{brk + "syncPublish", `%msg\.Topic`, `%b`, func(sub, st string) string {
			return `^call:router\.\(\*broker\)\.syncPubEvent\(%b, %pub, %msg, %pubID, ` + sub + `, %excludePub, ` + st + `, %disclose, %filter, %eventDetails\)$`
		}},
		{brk + "syncPubMeta", `%metaTopic`, `%b`, func(sub, st string) string {
			return `^call:dyn:%sendMeta\(` + sub + `, ` + st + `\)$`
		}},
	}
	for _, s := range sites {
		exact := s.recv + `\.topicSubscription\[` + s.topic + `\],ok`
		c.Guard(r2, s.fn, "exact-match delivery", s.call(exact+`#0`, `false`), 1,
			clause("exact table hit on the published topic", T(`^`+exact+`#1$`)))
		pk := `range\(` + s.recv + `\.pfxTopicSubscription\)`
		c.Guard(r2, s.fn, "prefix-match delivery", s.call(pk+`#v`, `true`), 1,
			clause("published topic has the table key as prefix", T(`^call:wamp\.\(URI\)\.PrefixMatch\(`+s.topic+`, `+pk+`#k\)$`)))
		wk := `range\(` + s.recv + `\.wcTopicSubscription\)`
		c.Guard(r2, s.fn, "wildcard-match delivery", s.call(wk+`#v`, `true`), 1,
			clause("published topic matches the table key as wildcard", T(`^call:wamp\.\(URI\)\.WildcardMatch\(`+s.topic+`, `+wk+`#k\)$`)))
	}
	// exactly three delivery sites per function: nothing delivered outside the guarded ones
	for _, s := range sites {
		fnp := c.Fn(r2, s.fn)
		if fnp == nil {
			continue
		}
		n := len(matches(fnp, `^call:(router\.\(\*broker\)\.syncPubEvent|dyn:%sendMeta)\(`))
		c.R.Check(n == 3, r2, s.fn, "exactly three delivery call sites", c.P.FuncPos(fnp), "number of syncPubEvent/sendMeta call sites differs from the three guarded ones")
	}
}
