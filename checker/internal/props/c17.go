package props

import (
	"fmt"
	"strings"

	"golang.org/x/tools/go/ssa"

	"nxcheck/internal/ir"
)

func init() {
	register(&Check{
		ID: "C17",
		Decides: "panic- and hang-freedom of the client through structural necessary conditions: no unchecked type assertion and no unguarded list index on values taken from details and arguments of messages received from the router; " +
			"no explicit panic in code reachable from the receive loop; every session-lock acquisition in the client is released on every path before the function returns or blocks on a channel; the peer is closed only by Close() " +
			"(and by NewClient on join failure); the receive loop cancels the client's context on every exit as its first deferred action; the dispatcher ends the loop only for GOODBYE/ABORT and ignores unknown messages; " +
			"Close() forces the receive loop to end whenever it has not observed it ending, waits for invocation handlers and then closes the peer; handler start/finish are counted in pairs. " +
			"a reply handed to a waiter that gave up releases the receive loop through the waiter's gone channel (D18, repaired); invocation goroutines never block on the peer alone; a wait for a reply is bounded by one timer.",
		NotDecided: "user handlers blocking the receive loop (documented API contract), hostile transports below the Peer interface, timing of replies against timers.",
		Run: runC17,
	})
}

func runC17(c *Ctx) {
	run := c.Fn("C17", cl+"run")
	inLoop := ir.ReachableFrom(run) // includes goroutines started from the loop (invocation handlers)
	extra := []string{cl + "prepareCallResultMessage", "client.unpackPPTPayload", "client.unpackE2EEPayload", cl + "waitForReply", cl + "waitForReplyWithCancel"}
	for _, n := range extra {
		if f := c.P.Func(n); f != nil {
			for g := range ir.ReachableFrom(f) {
				inLoop[g] = true
			}
		}
	}

	const r1 = "C17.R1 no unchecked assertion or unguarded index on data from the router"
	appInput := map[string]string{
		"client.packE2EEPayload": "options are the application's own (Publish/Call options, InvokeResult.Options), not router data",
		"client.packPPTPayload":  "as above",
	}
	nA, nI := 0, 0
	for fn := range inLoop {
		name := ir.ShortName(fn)
		if !strings.HasPrefix(name, "client.") {
			continue
		}
		for _, in := range ir.Instrs(fn) {
			switch x := in.(type) {
			case *ssa.TypeAssert:
				if x.CommaOk {
					continue
				}
				nA++
				if why, ok := appInput[name]; ok {
					c.R.OK(r1, name, "single-result assertion "+ir.Desc(x)+" (exempt: "+why+")", c.pos(in), "")
					continue
				}
				c.R.Check(!fromAny(x.X, 0), r1, name, "single-result assertion "+ir.Desc(x), c.pos(in),
					"unchecked type assertion on a value taken from a message's details/arguments: another (possibly hostile) client controls it and can crash this client")
			case *ssa.IndexAddr:
				if !isAnyList(x.X.Type()) {
					continue
				}
				if _, isAlloc := x.X.(*ssa.Alloc); isAlloc {
					continue
				}
				if _, isMk := x.X.(*ssa.MakeSlice); isMk {
					continue
				}
				nI++
				c.R.Check(lenGuarded(fn, x), r1, name, "index "+ir.Desc(x), c.pos(in), "a list from a received message is indexed without a dominating length guard")
			case *ssa.Panic:
				if ir.Desc(x.X) == `"blocking select matched no case"` {
					continue
				}
				c.R.Bad(r1, name, "explicit panic", c.pos(in), "explicit panic in code reachable from the client's receive loop")
			}
		}
	}
	c.R.OK(r1, "client", fmt.Sprintf("enumerated %d single-result assertions and %d list index sites in code reachable from the receive loop", nA, nI), "-", "")
	// decoded payload pointer is checked before use
	up := "client.unpackPPTPayload"
	c.Guard(r1, up, "decoded passthru payload used", `^return:local:payloadTyped\.Arguments, local:payloadTyped\.ArgumentsKw, nil$|^return:.*payloadTyped.*Arguments`, 1, clause("payload pointer not nil", F(`^\(local:payloadTyped == nil\)$`), F(`^\(.*payloadTyped.* == nil\)$`)))
	rulePayloadDecodeTarget(c, r1)
	ruleNoNilMessage(c, r1) // the client dereferences what the transport delivers
	ruleClientLoggerDefault(c, r1)
	c.R.Floor(r1, 9)

	const r2 = "C17.R2 session lock released on every path, never held across a blocking operation"
	nLock := 0
	for _, fn := range c.P.FuncsIn("client") {
		name := ir.ShortName(fn)
		locks := matches(fn, `^call:wamp\.\(\*Session\)\.Lock\(`)
		if len(locks) == 0 {
			continue
		}
		hasDefer := len(matches(fn, `^defer:wamp\.\(\*Session\)\.Unlock\(`)) > 0
		for i, l := range locks {
			nLock++
			if hasDefer {
				c.R.OK(r2, name, fmt.Sprintf("lock #%d released by deferred Unlock", i), c.pos(l), "")
				continue
			}
			w := (&ir.Walk{Stop: func(in ssa.Instruction) bool { return strings.HasPrefix(ir.InstrDesc(in), "call:wamp.(*Session).Unlock(") }}).From(l.Block(), ir.IndexOf(l)+1)
			bad := ""
			for in := range w.Reached {
				switch x := in.(type) {
				case *ssa.Return:
					bad = "function returns at " + c.pos(in) + " with the session lock held"
				case *ssa.Send:
					bad = "blocking send at " + c.pos(in) + " with the session lock held"
				case *ssa.Select:
					if x.Blocking {
						bad = "blocking select at " + c.pos(in) + " with the session lock held"
					}
				case *ssa.UnOp:
					if x.Op.String() == "<-" {
						bad = "blocking receive at " + c.pos(in) + " with the session lock held"
					}
				case *ssa.Call:
					if strings.HasPrefix(ir.InstrDesc(in), "call:wamp.(*Session).Lock(") && in != l {
						bad = "second Lock at " + c.pos(in) + " with the session lock held (self-deadlock)"
					}
				}
			}
			c.R.Check(bad == "", r2, name, fmt.Sprintf("lock #%d released before returning or blocking", i), c.pos(l), bad+": the receive loop and every API call deadlock on the next Lock")
		}
	}
	c.R.Check(nLock >= 18, r2, "client", "session lock sites enumerated", "-", fmt.Sprintf("found %d", nLock))
	c.R.Floor(r2, 19)

	const r3 = "C17.R3 the peer is closed only by Close (and NewClient on failure)"
	nClose := 0
	for _, fn := range c.P.FuncsIn("client") {
		name := ir.ShortName(fn)
		for _, in := range ir.Instrs(fn) {
			ci, ok := in.(ssa.CallInstruction)
			if !ok {
				continue
			}
			cc := ci.Common()
			if cc.IsInvoke() && cc.Method.Name() == "Close" && strings.HasSuffix(ir.TypeStr(cc.Value.Type()), "wamp.Peer") {
				nClose++
				ok := name == cl+"Close" || name == "client.NewClient"
				c.R.Check(ok, r3, name, "peer Close: "+ir.InstrDesc(in), c.pos(in),
					"the client's peer is closed outside Client.Close: Close() closes it again (close of closed channel for local and rawsocket peers)")
			}
		}
	}
	c.R.Check(nClose >= 3, r3, "client", "peer close sites enumerated", "-", fmt.Sprintf("found %d", nClose))
	cf := cl + "Close"
	c.Guard(r3, cf, "peer closed once", `^call:invoke:wamp\.Peer\.Close\[%c\.sess\.Peer\]\(\)$`, 1, clause("not already closed", F(`^%c\.closed$`)))
	c.Before(r3, cf, "closed flag set under the lock before anything else", `^store:%c\.&closed=true$`, `^call:invoke:wamp\.Peer\.Close\[`)
	c.R.Floor(r3, 5)

	const r4 = "C17.R4 shutdown sequencing"
	rn := cl + "run"
	if run != nil {
		first := ""
		for _, in := range ir.Instrs(run) {
			if _, ok := in.(*ssa.Defer); ok {
				first = ir.InstrDesc(in)
				break
			}
		}
		c.R.Check(first == "defer:dyn:%c.cancel()", r4, rn, "Done() is signalled on every exit of the receive loop (first deferred call)", c.P.FuncPos(run), "first deferred call is "+first)
	}
	c.Reach(r4, cf, "Close forces the receive loop to end unless it saw it end", ReachSpec{
		Stop: `^call:wamp\.\(\*Session\)\.EndRecv\(%c\.sess, nil\)$`, Cut: []ir.Clause{
			clause("already closed", T(`^%c\.closed$`)), clause("not connected any more", F(`^call:client\.\(\*Client\)\.Connected\(%c\)$`)),
			clause("Done observed after GOODBYE", T(`^\(select\{recv:call:client\.\(\*Client\)\.Done\(%c\);recv:call:invoke:context\.Context\.Done\[.*\]\(\)\}#0 == 0\)$`))},
		Target: `^call:\(\*sync\.WaitGroup\)\.Wait\(%c\.&activeInvHandlers\)$`, Want: false})
	c.Reach(r4, cf, "after forcing, Close waits for the loop to end", ReachSpec{From: `^call:wamp\.\(\*Session\)\.EndRecv\(%c\.sess, nil\)$`, Stop: `^val:<-call:client\.\(\*Client\)\.Done\(%c\)$`, Target: `^call:\(\*sync\.WaitGroup\)\.Wait\(`, Want: false})
	c.Before(r4, cf, "handlers awaited before the peer is closed", `^call:\(\*sync\.WaitGroup\)\.Wait\(%c\.&activeInvHandlers\)$`, `^call:invoke:wamp\.Peer\.Close\[`)
	c.Reach(r4, cf, "an effective Close always closes the peer", ReachSpec{From: `^store:%c\.&closed=true$`, Stop: `^call:invoke:wamp\.Peer\.Close\[%c\.sess\.Peer\]\(\)$`, Target: "EXIT", Want: false})
	hi := cl + "runHandleInvocation"
	c.Before(r4, hi, "handler counted in before its goroutine starts", `^call:\(\*sync\.WaitGroup\)\.Add\(%c\.&activeInvHandlers, 1\)$`, `^go:client\.\(\*Client\)\.runHandleInvocation\$1\(\)$`)
	if fn := c.Fn(r4, hi); fn != nil {
		nAdd := len(matches(fn, `^call:\(\*sync\.WaitGroup\)\.Add\(%c\.&activeInvHandlers, 1\)$`))
		nGo := len(matches(fn, `^go:client\.\(\*Client\)\.runHandleInvocation\$1\(\)$`))
		c.R.Check(nAdd == 1 && nGo == 1, r4, hi, "one Add per handler goroutine", c.P.FuncPos(fn), fmt.Sprintf("Add=%d go=%d", nAdd, nGo))
		c.Reach(r4, hi, "every counted handler is started", ReachSpec{From: `^call:\(\*sync\.WaitGroup\)\.Add\(%c\.&activeInvHandlers, 1\)$`, Stop: `^go:client\.\(\*Client\)\.runHandleInvocation\$1\(\)$`, Target: "EXIT", Want: false})
	}
	c.Has(r4, hi+"$1$2", "handler counts out when its goroutine ends", `^call:\(\*sync\.WaitGroup\)\.Done\(\^c\.&activeInvHandlers\)$`, 1)
	c.Has(r4, hi+"$1", "count-out is deferred", `^defer:client\.\(\*Client\)\.runHandleInvocation\$1\$2\(\)$`, 1)
	ruleKeepAliveCloses(c, r4) // a silent router ends the transport, hence the receive loop, hence Done()
	c.R.Floor(r4, 12)

	const r5 = "C17.R5 dispatcher tolerates every message"
	rr := cl + "runReceiveFromRouter"
	c.Guard(r5, rr, "loop ends", `^return:true$`, 2, clause("GOODBYE or ABORT", T(`^%msg\.\(\*wamp\.Goodbye\),ok#1$`), T(`^%msg\.\(\*wamp\.Abort\),ok#1$`)))
	c.Reach(r5, rr, "GOODBYE ends the loop", ReachSpec{FromEdge: &ir.Clause{Name: "goodbye", Edges: []ir.EdgeSpec{T(`^%msg\.\(\*wamp\.Goodbye\),ok#1$`)}}, Target: `^return:false$`, Want: false})
	c.Reach(r5, rr, "ABORT ends the loop", ReachSpec{FromEdge: &ir.Clause{Name: "abort", Edges: []ir.EdgeSpec{T(`^%msg\.\(\*wamp\.Abort\),ok#1$`)}}, Target: `^return:false$`, Want: false})
	c.Reach(r5, rn, "the loop exits when the dispatcher says so, the peer closes or EndRecv is called", ReachSpec{
		FromEdge: &ir.Clause{Name: "stop conditions", Edges: []ir.EdgeSpec{T(`^call:client\.\(\*Client\)\.runReceiveFromRouter\(`), F(`^select\{recv:.*\}#1$`), T(`^\(select\{recv:.*RecvDone\(%c\.sess\)\}#0 == 1\)$`)}},
		Target:   `^select\{recv:`, Want: false})
	c.R.Floor(r5, 6)

	const r6 = "C17.R6 the receive loop cannot be stranded by a waiter that gave up"
	rs := cl + "runSignalReply"
	if fn := c.Fn(r6, rs); fn != nil {
		for _, in := range ir.Instrs(fn) {
			sel, ok := in.(*ssa.Select)
			if !ok || !sel.Blocking {
				continue
			}
			// a blocking hand-over needs an alternative that the waiter itself triggers when it gives up: the gone
			// channel of the very waiter record the reply is sent to (closed by forgetReply, see ruleWaiterRemoved);
			// the client's own Done() is closed only by the receive loop's exit and does not count
			escape := false
			for _, snd := range sel.States {
				if snd.Send == nil || !strings.HasSuffix(ir.Desc(snd.Chan), ".msgs") {
					continue
				}
				gone := strings.TrimSuffix(ir.Desc(snd.Chan), ".msgs") + ".gone"
				for _, st := range sel.States {
					if st.Send == nil && ir.Desc(st.Chan) == gone {
						escape = true
					}
				}
			}
			c.R.Check(escape, r6, rs, "hand-over to a waiter has an escape that does not depend on the receive loop itself", c.pos(in),
				"runSignalReply blocks until the waiter receives or Done() closes; Done() is closed only by the receive loop's own exit, so a waiter that timed out between lookup and send strands the loop (and Close) forever")
		}
	}
	ruleWaiterRemoved(c, r6)
	c.R.Floor(r6, 10)

	const r7 = "C17.R7 goroutines that Close waits for never block on the peer alone"
	// Close() waits for the invocation goroutines; a plain send to the peer's queue blocks forever once the
	// connection is gone, so every such send must have the client's context as an alternative
	nSend := 0
	for _, fn := range c.P.FuncsIn("client") {
		name := ir.ShortName(fn)
		if !strings.HasPrefix(name, cl+"runHandleInvocation$") {
			continue
		}
		for _, in := range ir.Instrs(fn) {
			d := ir.InstrDesc(in)
			switch {
			case strings.HasPrefix(d, "send:call:invoke:wamp.Peer.Send["):
				nSend++
				c.R.Bad(r7, name, "send to the peer has the client's context as an alternative: "+d, c.pos(in),
					"blocking send to the peer in an invocation goroutine: after a disconnect with this send pending the goroutine never ends and Close() waits for it forever")
			case strings.HasPrefix(d, "select{send:call:invoke:wamp.Peer.Send["):
				nSend++
				c.R.Check(strings.Contains(d, ";recv:call:invoke:context.Context.Done[^c.ctx]()") || strings.Contains(d, ";recv:call:client.(*Client).Done("), r7, name,
					"send to the peer has the client's context as an alternative: "+d, c.pos(in), "the select offers no way out when the client is done")
			}
		}
	}
	c.R.Check(nSend >= 5, r7, "client", "peer sends of the invocation goroutines enumerated", "-", fmt.Sprintf("found %d", nSend))
	// the control-frame handlers a send loop installs on the connection run on the receive goroutine: they hand a ping
	// over to the send loop without waiting for it (a stalled or stopped send loop must not stop the receive loop)
	nPing := 0
	for _, fn := range c.P.FuncsIn("transport") {
		name := ir.ShortName(fn)
		if fn.Parent() == nil || !strings.HasPrefix(name, "transport.(*websocketPeer).sendHandler") {
			continue
		}
		for _, in := range ir.Instrs(fn) {
			if _, ok := in.(*ssa.Send); ok {
				c.R.Bad(r7, name, "a control-frame handler (run by the receive goroutine) never blocks on the send goroutine", c.pos(in),
					"unconditional send "+ir.InstrDesc(in)+": with the send loop stalled or stopped the second control frame blocks the receive loop for ever, GOODBYE is never seen and Close hangs")
			}
		}
		nPing += len(matches(fn, `^select\{send:\^\w+<-%\w+;default\}$`))
	}
	c.R.Check(nPing >= 2, r7, "transport.(*websocketPeer).sendHandler*", "pings handed to the send goroutine without waiting (both send loops)", "-", fmt.Sprintf("found %d non-blocking hand-overs, 2 confirmed by reading", nPing))
	c.R.Floor(r7, 6)

	const r9 = "C17.R9 an API call never blocks on the transport alone"
	// outside the receive loop every hand-over to the peer's outbound queue has the end of the client as an
	// alternative: the send helper, or a select with Done / the client's context
	sh := cl + "send"
	c.Has(r9, sh, "send gives up when the client is done", `^select\{send:call:invoke:wamp\.Peer\.Send\[%c\.sess\.Peer\]\(\)<-%msg;recv:call:client\.\(\*Client\)\.Done\(%c\)\}$`, 1)
	runLoop := map[string]bool{}
	if root := c.P.Func(cl + "run"); root != nil {
		for f := range ir.SyncReachable(root) {
			runLoop[ir.ShortName(f)] = true
		}
	}
	nAPI := 0
	for _, fn := range c.P.FuncsIn("client") {
		name := ir.ShortName(fn)
		if runLoop[name] || strings.HasPrefix(name, cl+"runHandleInvocation$") || name == sh {
			continue // the receive loop (its sends are the router's to drain) and the invocation goroutines (C17.R7)
		}
		if name == "client.joinRealm" || name == "client.handleCRAuth" {
			continue // the joining handshake of NewClient: no client (and no Done) exists yet; bounded by the connect context / response timeout of the handshake
		}
		for _, in := range ir.Instrs(fn) {
			d := ir.InstrDesc(in)
			switch {
			case strings.HasPrefix(d, "send:call:invoke:wamp.Peer.Send["):
				nAPI++
				c.R.Bad(r9, name, "hand-over to the transport can be abandoned when the client is done: "+d, c.pos(in),
					"unconditional send to the peer's outbound queue in an API call: when the connection ends at this moment nothing drains the queue any more and the call never returns")
			case strings.HasPrefix(d, "select{send:call:invoke:wamp.Peer.Send["):
				nAPI++
				c.R.Check(strings.Contains(d, ";recv:"), r9, name, "hand-over to the transport can be abandoned: "+d, c.pos(in), "select without an alternative")
			case strings.HasPrefix(d, "call:client.(*Client).send("):
				nAPI++
				c.R.OK(r9, name, "hand-over through the send helper: "+d, c.pos(in), "")
			}
		}
	}
	c.R.Check(nAPI >= 12, r9, "client", "hand-overs of the API functions enumerated", "-", fmt.Sprintf("found %d", nAPI))
	c.R.Floor(r9, 14)

	const r8 = "C17.R8 waiting for a reply is bounded by one timer"
	for _, w := range []string{"waitForReply", "waitForReplyWithCancel"} {
		c.Reach(r8, cl+w, "no timer is (re)armed once waiting on it has begun", ReachSpec{
			From: `^select\{recv:%c\.awaitingReply\[%id\],ok#0\.msgs;recv:call:time\.`, Target: `^call:time\.(NewTimer|After|AfterFunc)\(|^call:\(\*time\.Timer\)\.Reset\(`, Want: false})
	}
	c.Has(r8, cl+"waitForReplyWithCancel", "after CANCEL the wait for ERROR is bounded by the response timeout", `^select\{recv:%c\.awaitingReply\[%id\],ok#0\.msgs;recv:call:time\.NewTimer\(%c\.responseTimeout\)\.C\}$`, 1)
	c.R.Floor(r8, 3)
}
