package props

import (
	"fmt"
	"go/token"
	"go/types"
	"strconv"
	"strings"

	"golang.org/x/tools/go/ssa"

	"nxcheck/internal/ir"
)

func init() {
	register(&Check{
		ID: "C04",
		Decides: "panic-freedom and race-freedom through their structural necessary conditions in the router-side packages: (1) no unchecked type assertion, and no list indexing without a dominating length guard, on values that come out of " +
			"client-supplied dicts and lists; (2) no nil message can be handed to the router by a transport receive loop; (3) every explicit panic site is one of the reviewed invariant/start-up sites; (4) a session's peer is " +
			"closed only by the reviewed owners (its handler after removal, realm.close after dealer/broker stopped, the attach path before hand-over) — never by broker or dealer; (5) every access to a field of router, realm, " +
			"broker, dealer (and of the records they own) that is written after construction happens in a function confined to the owner's goroutine; (6) every content access to Session.Details happens inside a " +
			"Lock/Unlock region of that session; (7) dicts are written only while private (C12.R1).",
		NotDecided: "panics inside third-party code beyond the codec's own recover, resource exhaustion, index expressions whose bounds depend on arithmetic, data races on memory the confinement/lock tables do not name.",
		Run: runC04,
	})
}

var routerSidePkgs = []string{"router", "router/auth", "transport", "transport/serialize", "wamp", "wamp/crsign"}

func inPkgs(name string, pkgs []string) bool {
	for _, p := range pkgs {
		if strings.HasPrefix(name, p+".") {
			return true
		}
	}
	return false
}

// fromAny reports whether v (an interface value) was obtained by indexing or
// ranging a dict or list of `any` (message data), looking through phis.
func fromAny(v ssa.Value, depth int) bool {
	if depth > 5 {
		return false
	}
	switch x := v.(type) {
	case *ssa.Lookup:
		return isMsgDict(x.X.Type())
	case *ssa.Extract:
		switch t := x.Tuple.(type) {
		case *ssa.Lookup:
			return isMsgDict(t.X.Type())
		case *ssa.Next:
			if r, ok := t.Iter.(*ssa.Range); ok {
				return isMsgDict(r.X.Type()) || isAnyList(r.X.Type())
			}
		}
	case *ssa.UnOp:
		if ia, ok := x.X.(*ssa.IndexAddr); ok {
			return isAnyList(ia.X.Type())
		}
	case *ssa.Index:
		return isAnyList(x.X.Type())
	case *ssa.Phi:
		for _, e := range x.Edges {
			if fromAny(e, depth+1) {
				return true
			}
		}
	case *ssa.Parameter:
		// `any` parameters of small helpers are data by construction
		return types.IsInterface(x.Type()) && x.Type().String() == "any"
	}
	return false
}

func isAnyList(t types.Type) bool {
	if p, ok := t.Underlying().(*types.Pointer); ok {
		t = p.Elem()
	}
	switch s := t.Underlying().(type) {
	case *types.Slice:
		_, ok := s.Elem().Underlying().(*types.Interface)
		return ok
	case *types.Array:
		_, ok := s.Elem().Underlying().(*types.Interface)
		return ok
	}
	return false
}

func runC04(c *Ctx) {
	// R1: untrusted any: unchecked assertions and unguarded indexing
	const r1 = "C04.R1 no unchecked assertion or unguarded index on client data"
	nAssert, nIndex := 0, 0
	for _, fn := range c.P.NexusFuncs {
		name := ir.ShortName(fn)
		if !inPkgs(name, routerSidePkgs) {
			continue
		}
		for _, in := range ir.Instrs(fn) {
			switch x := in.(type) {
			case *ssa.TypeAssert:
				if x.CommaOk {
					continue
				}
				nAssert++
				tainted := fromAny(x.X, 0)
				construct := "single-result assertion " + ir.Desc(x)
				c.R.Check(!tainted, r1, name, construct, c.pos(in),
					"unchecked type assertion on a value taken from a client-supplied dict/list: a value of another type panics the router")
			case *ssa.IndexAddr:
				if !isAnyList(x.X.Type()) {
					continue
				}
				// only message payload lists: wamp.List / []any fields of messages or parameters, not local array literals
				if _, isAlloc := x.X.(*ssa.Alloc); isAlloc {
					continue
				}
				if _, isMk := x.X.(*ssa.MakeSlice); isMk {
					continue // created here with a known length
				}
				if _, isConstIdx := x.Index.(*ssa.Const); !isConstIdx {
					// loop indices are bounded by their range/len loop condition
					if lenGuarded(fn, x) {
						continue
					}
				}
				nIndex++
				ok := lenGuarded(fn, x)
				c.R.Check(ok, r1, name, "index "+ir.Desc(x), c.pos(in),
					"a client-supplied list is indexed without a dominating length guard on the same list: a shorter list panics the router")
			}
		}
	}
	c.R.OK(r1, "router-side packages", fmt.Sprintf("enumerated %d single-result assertions and %d list index sites", nAssert, nIndex), "-", "")
	c.R.Check(nIndex >= 20, r1, "router-side packages", "list index sites enumerated", "-", fmt.Sprintf("only %d message-list index sites found; 20 were confirmed by reading", nIndex))
	ruleWireIndexBounded(c, r1)
	ruleListToMsgBounded(c, r1) // a frame with surplus elements must not panic the transport's receive goroutine
	c.R.Floor(r1, 26)

	const r2 = "C04.R2 transports never deliver a nil message"
	ruleNoNilMessage(c, r2)
	ruleWebsocketServerProtocols(c, r2)
	c.R.Floor(r2, 6)

	// R3: reviewed panic sites
	const r3 = "C04.R3 explicit panic sites are the reviewed ones"
	// the selection switch of syncCall panics on an unknown policy: that is unreachable only while register accepts
	// exactly the policies the switch knows and stores them as validated
	rulePolicyAgreement(c, r3)
	allowedPanic := map[string]string{
		"router.(*broker).publish":               "nil session/message argument guard (programming error of the embedding code, not client input)",
		"router.(*broker).subscribe":             "nil argument guard",
		"router.(*broker).unsubscribe":           "nil argument guard",
		"router.(*dealer).register":              "nil argument guard",
		"router.(*dealer).unregister":            "nil argument guard",
		"router.(*dealer).call":                  "nil argument guard",
		"router.(*dealer).cancel":                "nil argument guard",
		"router.(*dealer).yield":                 "nil argument guard",
		"router.(*dealer).error":                 "nil argument guard",
		"router.newBroker":                       "nil logger at construction",
		"router.(*realm).registerMetaProcedure":  "meta procedure registration fails at realm start-up only",
		"router.(*dealer).syncRemoveSession":     "invariant: calleeRegIDSet only holds ids of existing registrations (maintained by syncRegister/syncUnregister/syncDelCalleeReg)",
		"router.(*dealer).syncCall":              "invariant: policies admitted by register are exactly the switch arms (decided by C03.R4)",
		"router.(*realm).handleInboundMessages":  "compiler-generated: blocking select matched no case",
		"wamp.secureInt63n":                      "n is the constant MaxID; crypto/rand failure",
		"wamp.GlobalID":                          "crypto/rand failure (the bounded random draw written out in GlobalID itself)",
		"wamp.RecvTimeout":                       "compiler-generated: blocking select matched no case",
		"transport/serialize.listToMsg":          "invariant: message struct fields are ID/URI/MessageType/string/Dict/List (decided by C14)",
		"transport.(*websocketPeer).recvHandler": "compiler-generated: blocking select matched no case",
		"transport/serialize.(bytesExtWrapper).WriteExt": "codec extension hook: the panic is recovered by the codec and returned as an encode error (codec contract)",
		"transport/serialize.(bytesExtWrapper).ReadExt":  "codec extension hook: the panic is recovered by the codec and returned as a decode error (codec contract)",
		"transport.(*rawSocketPeer).recvHandler": "compiler-generated: blocking select matched no case",
	}
	nPanic := 0
	for _, fn := range c.P.NexusFuncs {
		name := ir.ShortName(fn)
		if !inPkgs(name, routerSidePkgs) {
			continue
		}
		k := 0
		for _, in := range ir.Instrs(fn) {
			if p, ok := in.(*ssa.Panic); ok {
				nPanic++
				k++
				why, ok := allowedPanic[name]
				if !ok {
					// compiler-generated select panics in any function
					if ir.Desc(p.X) == `"blocking select matched no case"` {
						c.R.OK(r3, name, fmt.Sprintf("panic #%d (compiler-generated select fallthrough)", k), c.pos(in), "")
						continue
					}
				}
				c.R.Check(ok, r3, name, fmt.Sprintf("panic #%d is a reviewed site", k), c.pos(in),
					"explicit panic("+ir.Desc(p.X)+") in a function that is not in the reviewed table: if client input or timing can reach it, one client kills the router"+why)
			}
		}
	}
	c.R.Check(nPanic >= 15, r3, "router-side packages", "panic sites enumerated", "-", fmt.Sprintf("found %d", nPanic))
	// the nil-argument panics are guarded by nil tests only
	for _, f := range []string{brk + "publish", brk + "subscribe", brk + "unsubscribe", dlr + "register", dlr + "unregister", dlr + "call", dlr + "cancel", dlr + "yield", dlr + "error"} {
		c.Guard(r3, f, "nil-argument panic", `^panic:`, 1, clause("an argument is nil", T(`^\(%\w+ == nil\)$`)))
	}
	c.Guard(r3, dlr+"syncRemoveSession", "invariant panic", `^panic:`, 1, clause("registration id unknown", F(`^\(call:router\.\(\*dealer\)\.syncDelCalleeReg\(.*\)#1 == nil\)$`)))
	ruleFailCall(c, r3) // call tables stay consistent: syncCall dereferences the invocation a call->invocation entry names
	c.R.Floor(r3, 33)

	// R4: who may close a peer
	const r4 = "C04.R4 a session's peer is closed only by its reviewed owners"
	allowedClose := map[string]string{
		"router.(*router).AttachClient":          "no session exists yet (no HELLO)",
		"router.(*router).AttachClient$1":        "attach refused: ABORT then close, session never handed to a realm",
		"router.(*realm).handleSession$1":        "the session's own handler, after onLeave removed it",
		"router.(*realm).close":                  "sessions ended by shutdown, after dealer and broker stopped",
		"router.(*RawSocketServer).handleRawSocket": "transport accept path",
		"router.(*WebsocketServer).handleWebsocket": "transport accept path",
	}
	nClose := 0
	for _, fn := range c.P.FuncsIn("router") {
		name := ir.ShortName(fn)
		for _, in := range ir.Instrs(fn) {
			call, ok := in.(ssa.CallInstruction)
			if !ok {
				continue
			}
			cc := call.Common()
			isPeerClose := false
			if cc.IsInvoke() && cc.Method.Name() == "Close" && strings.HasSuffix(ir.TypeStr(cc.Value.Type()), "wamp.Peer") {
				isPeerClose = true
			}
			if f := cc.StaticCallee(); f != nil && f.Name() == "Close" && f.Signature.Recv() != nil && strings.Contains(f.Signature.Recv().Type().String(), "wamp.Session") {
				isPeerClose = true
			}
			if !isPeerClose {
				continue
			}
			nClose++
			_, ok = allowedClose[name]
			c.R.Check(ok, r4, name, "peer Close: "+ir.InstrDesc(in), c.pos(in),
				"a peer is closed from "+name+": only the session's handler (after removal), realm.close (after dealer/broker stopped) and the attach path may close it; a second close or a send after close panics")
		}
	}
	c.R.Check(nClose >= 4, r4, "router", "peer close sites enumerated", "-", fmt.Sprintf("found %d", nClose))
	ruleSessionRemoval(c, r4)
	c.R.Floor(r4, 18)

	// R5: owner confinement
	const r5 = "C04.R5 state of router/realm/broker/dealer is touched only from the owner's goroutine"
	ruleConfinement(c, r5)
	c.R.Floor(r5, 120)

	// R6: no goroutine of the router blocks on a client (wedge)
	const r6 = "C04.R6 deliveries to client sessions never block; dealer and broker never block on the meta session"
	ruleNonBlocking(c, r6)
	ruleCompletionSignalled(c, r6)
	c.R.Floor(r6, 25)

	// R7: dicts handed to peers are never written afterwards or while shared
	const r7 = "C04.R7 message dicts are written only while private (no concurrent map access with serialisers)"
	ruleDictWrites(c, r7)
	c.R.Floor(r7, 30)
}


// mayBeNilConst: the value is the nil constant on some incoming edge.
func mayBeNilConst(v ssa.Value, depth int) bool {
	if depth > 6 {
		return false
	}
	switch x := v.(type) {
	case *ssa.Const:
		return x.Value == nil
	case *ssa.Phi:
		for _, e := range x.Edges {
			if e != ssa.Value(x) && mayBeNilConst(e, depth+1) {
				return true
			}
		}
	case *ssa.MakeInterface:
		return false
	case *ssa.UnOp:
		// load of a local that is only ever stored nil-free values
		if a, ok := x.X.(*ssa.Alloc); ok {
			stores := 0
			for _, r := range *a.Referrers() {
				if st, ok := r.(*ssa.Store); ok && st.Addr == a {
					stores++
					if mayBeNilConst(st.Val, depth+1) {
						return true
					}
				}
			}
			return stores == 0
		}
	}
	return false
}

// lenGuarded: the IndexAddr is reachable only through an edge that compares
// len() of the same list (or the loop bound of a range over it).
func lenGuarded(fn *ssa.Function, ia *ssa.IndexAddr) bool {
	l := q(ir.Desc(ia.X))
	guard := clause("length of the same list tested",
		F(`^\(call:builtin:len\(`+l+`\) == 0\)$`),
		T(`^\(.* < call:builtin:len\(`+l+`\)\)$`), F(`^\(call:builtin:len\(`+l+`\) < .*\)$`),
		T(`^\(\d+ < call:builtin:len\(`+l+`\)\)$`),
		T(`^\(.* < \(call:builtin:len\(`+l+`\) - \d+\)\)$`))
	ok, w := ir.GuardedBy(fn, ia, guard)
	return ok && w.CutCount > 0
}
// ruleNoNilMessage: transport receive loops hand only decoded messages to the router.
func ruleNoNilMessage(c *Ctx, r2 string) {
	nRd := 0
	for _, fname := range []string{"transport.(*rawSocketPeer).recvHandler", "transport.(*websocketPeer).recvHandler"} {
		fn := c.Fn(r2, fname)
		if fn == nil {
			continue
		}
		for _, in := range ir.Instrs(fn) {
			var vals []ssa.Value
			switch x := in.(type) {
			case *ssa.Send:
				if strings.HasSuffix(ir.Desc(x.Chan), ".rd") {
					vals = append(vals, x.X)
				}
			case *ssa.Select:
				for _, st := range x.States {
					if st.Dir == types.SendOnly && strings.HasSuffix(ir.Desc(st.Chan), ".rd") {
						vals = append(vals, st.Send)
					}
				}
			}
			for _, v := range vals {
				nRd++
				c.R.Check(!mayBeNilConst(v, 0), r2, fname, fmt.Sprintf("message sent to the router #%d is never the nil constant", nRd), c.pos(in),
					"the value sent on the peer's receive channel can be the untouched zero value (nil) on some path: the router calls methods on it and panics")
			}
		}
		// a successful Deserialize is the only source
		c.Has(r2, fname, "message comes from Deserialize", `^call:invoke:serialize\.Serializer\.Deserialize\[`, 1)
	}
}

// ruleWireIndexBounded: an index into a fixed-size array that is computed from a byte of a locally filled buffer (a
// handshake or frame header just read from the connection) and is not a compile-time constant is provably inside the
// array: masked or shifted below its size, or dominated by a comparison with a constant that bounds it. Indices that
// come from parameters or fields are not decided here (their range is the caller's business) and are skipped.
func ruleWireIndexBounded(c *Ctx, rule string) {
	n := 0
	for _, fn := range c.P.NexusFuncs {
		name := ir.ShortName(fn)
		if !inPkgs(name, routerSidePkgs) && !inPkgs(name, []string{"client"}) {
			continue
		}
		for _, in := range ir.Instrs(fn) {
			var x, idx ssa.Value
			switch v := in.(type) {
			case *ssa.IndexAddr:
				x, idx = v.X, v.Index
			case *ssa.Index:
				x, idx = v.X, v.Index
			default:
				continue
			}
			t := x.Type().Underlying()
			if p, ok := t.(*types.Pointer); ok {
				t = p.Elem().Underlying()
			}
			arr, ok := t.(*types.Array)
			if !ok || arr.Len() > 512 {
				continue
			}
			if _, isConst := idx.(*ssa.Const); isConst {
				continue
			}
			v := idx
			for {
				if cv, ok := v.(*ssa.Convert); ok {
					v = cv.X
					continue
				}
				break
			}
			d := ir.Desc(v)
			if !strings.Contains(d, "&local:") {
				continue
			}
			n++
			c.R.Check(wireIndexBounded(fn, in, idx, v, arr.Len()), rule, name, "array index "+ir.Desc(x)+"["+d+"] within its "+fmt.Sprint(arr.Len())+" elements", c.pos(in),
				"index "+d+" (a byte read from the connection) into an array of "+fmt.Sprint(arr.Len())+" elements is neither masked/shifted below that size nor dominated by a comparison with a constant that bounds it: a value outside the table panics the connection's goroutine, which has no recover, and with it the router")
		}
	}
	c.R.OK(rule, "router-side packages and client", fmt.Sprintf("enumerated %d array index sites computed from a locally read buffer", n), "-", "")
}

func wireIndexBounded(fn *ssa.Function, at ssa.Instruction, idx, v ssa.Value, n int64) bool {
	konst := func(x ssa.Value) (int64, bool) {
		if k, ok := x.(*ssa.Const); ok && k.Value != nil {
			if i, err := strconv.ParseInt(ir.ConstStr(k), 10, 64); err == nil {
				return i, true
			}
		}
		return 0, false
	}
	if b, ok := v.(*ssa.BinOp); ok {
		switch b.Op {
		case token.AND:
			for _, o := range []ssa.Value{b.X, b.Y} {
				if k, ok := konst(o); ok && k >= 0 && k < n {
					return true
				}
			}
		case token.SHR:
			if s, ok := konst(b.Y); ok {
				if bt, ok := b.X.Type().Underlying().(*types.Basic); ok && bt.Kind() == types.Uint8 && (255>>uint(s)) < n {
					return true
				}
			}
		}
	}
	var le, lt []string
	for i := int64(0); i <= n; i++ {
		lt = append(lt, fmt.Sprint(i))
		if i < n {
			le = append(le, fmt.Sprint(i))
		}
	}
	for _, d := range []string{ir.Desc(idx), ir.Desc(v)} {
		e := `(conv:\w+\()?` + q(d) + `\)?`
		cl := clause("index bounded by a constant", T(`^\(`+e+` < (`+strings.Join(lt, "|")+`)\)$`), F(`^\((`+strings.Join(le, "|")+`) < `+e+`\)$`))
		if g, _ := ir.GuardedBy(fn, at, cl); g {
			return true
		}
	}
	return false
}
