package props

import (
	"fmt"
	"go/types"
	"strings"

	"golang.org/x/tools/go/ssa"

	"nxcheck/internal/ir"
)

func init() {
	register(&Check{
		ID: "C12",
		Decides: "that every write to a message dict (wamp.Dict / map[string]any) in the router targets a map created in the same activation — or a parameter that every call site fills with such a map — so that " +
			"details written for one recipient cannot be seen by another or change after delivery (one reasoned table of exceptions: the session's own details, handshake messages); that cleanSessionDetails returns a " +
			"fresh dict on every path, never copies key 'auth' of the transport details and always replaces 'transport' when auth data is present; that publisher and caller identity are written only under " +
			"the disclosure guards (option, realm permission or trusted role, recipient feature) and a disallowed disclose_me is refused without hand-off; that in-process recipients get copies of details and payload; " +
			"that session details leave the realm only through cleanSessionDetails.",
		NotDecided: "deep (nested) aliasing of payload values, what an in-process recipient does with nested structures it shares, user-supplied filters/authorizers reading details.",
		Run: runC12,
	})
}

func isMsgDict(t types.Type) bool {
	m, ok := t.Underlying().(*types.Map)
	if !ok {
		return false
	}
	if b, ok := m.Key().Underlying().(*types.Basic); !ok || b.Kind() != types.String {
		return false
	}
	_, isIface := m.Elem().Underlying().(*types.Interface)
	return isIface
}

// freshMap: the value is a map created in this activation.
func freshMap(v ssa.Value, depth int) bool { return freshMapS(v, depth, map[ssa.Value]bool{}) }

func freshMapS(v ssa.Value, depth int, seen map[ssa.Value]bool) bool {
	if depth > 8 {
		return false
	}
	freshMap := func(v ssa.Value, d int) bool { return freshMapS(v, d, seen) }
	switch x := v.(type) {
	case *ssa.MakeMap:
		return true
	case *ssa.Const:
		return x.Value == nil // nil map: a write would panic, but it aliases nothing
	case *ssa.ChangeType:
		return freshMap(x.X, depth+1)
	case *ssa.MakeInterface:
		return freshMap(x.X, depth+1)
	case *ssa.Phi:
		if seen[x] {
			return true // loop-carried: decided by the other incoming values
		}
		seen[x] = true
		for _, e := range x.Edges {
			if !freshMap(e, depth) {
				return false
			}
		}
		return true
	case *ssa.UnOp:
		// load of a field of a struct allocated here, or of a local variable: all stores must be fresh
		var stores []ssa.Value
		switch a := x.X.(type) {
		case *ssa.FieldAddr:
			root, ok := a.X.(*ssa.Alloc)
			if !ok {
				// field of a struct returned by a constructor-like callee: every returned value must be
				// allocated there with a fresh dict in that field
				base := a.X
				if ld, isLd := base.(*ssa.UnOp); isLd {
					if cell, isCell := ld.X.(*ssa.Alloc); isCell {
						if sv := ir.SingleStore(cell, ld); sv != nil {
							base = sv
						}
					}
				}
				if call, isCall := base.(*ssa.Call); isCall && depth < 3 {
					if f := call.Call.StaticCallee(); f != nil && f.Blocks != nil {
						fname := ""
						if _, ok := derefT(a.X.Type()).Underlying().(*types.Struct); ok {
							fname = ir.FieldName(a.X.Type(), a.Field)
						}
						n := 0
						for _, in := range ir.Instrs(f) {
							r, ok := in.(*ssa.Return)
							if !ok || len(r.Results) != 1 {
								continue
							}
							al, ok := r.Results[0].(*ssa.Alloc)
							if !ok {
								return false
							}
							vals := ir.LiteralFields(al)[fname]
							if len(vals) == 0 {
								return false
							}
							for _, v := range vals {
								if !freshMap(v, depth+2) {
									return false
								}
							}
							n++
						}
						return n > 0
					}
				}
				return false
			}
			name := ""
			if _, ok := derefT(root.Type()).Underlying().(*types.Struct); ok {
				name = ir.FieldName(root.Type(), a.Field)
			}
			stores = ir.LiteralFields(root)[name]
			// whole-struct stores (x = T{...}) initialise the field too
			for _, r := range *root.Referrers() {
				if st, ok := r.(*ssa.Store); ok && st.Addr == root {
					if ld, ok := st.Val.(*ssa.UnOp); ok {
						if src, ok := ld.X.(*ssa.Alloc); ok {
							stores = append(stores, ir.LiteralFields(src)[name]...)
						}
					}
				}
			}
		case *ssa.Alloc:
			for _, r := range *a.Referrers() {
				if st, ok := r.(*ssa.Store); ok && st.Addr == a {
					stores = append(stores, st.Val)
				}
			}
		default:
			return false
		}
		if len(stores) == 0 {
			return false
		}
		for _, s := range stores {
			if !freshMap(s, depth+1) {
				return false
			}
		}
		return true
	case *ssa.Call:
		// functions whose every return value is fresh
		if f := x.Call.StaticCallee(); f != nil && f.Blocks != nil && depth < 3 {
			for _, in := range ir.Instrs(f) {
				if r, ok := in.(*ssa.Return); ok && len(r.Results) == 1 {
					if !freshMap(r.Results[0], depth+2) {
						return false
					}
				}
			}
			return isMsgDict(x.Type())
		}
	}
	return false
}

func derefT(t types.Type) types.Type {
	if p, ok := t.Underlying().(*types.Pointer); ok {
		return p.Elem()
	}
	return t
}

func runC12(c *Ctx) {
	const r1 = "C12.R1 message dicts are written only while private to the activation"
	ruleDictWrites(c, r1)
	c.R.Floor(r1, 30)

	// R2: cleanSessionDetails
	const r2 = "C12.R2 cleanSessionDetails returns a fresh dict without transport auth"
	cs := rlm + "cleanSessionDetails"
	if fn := c.Fn(r2, cs); fn != nil {
		n := 0
		for _, in := range ir.Exits(fn, false) {
			r := in.(*ssa.Return)
			n++
			c.R.Check(len(r.Results) == 1 && freshMap(r.Results[0], 0), r2, cs, fmt.Sprintf("return #%d is a dict created in this call", n), c.pos(in),
				"returns "+ir.InstrDesc(in)+", which is not a map created in this activation: callers publish it in meta events and meta procedure results")
		}
		c.R.Check(n >= 3, r2, cs, "all returns enumerated", c.P.FuncPos(fn), "fewer returns than confirmed by reading")
	}
	trans := `call:wamp\.DictChild\(%details, "transport"\)`
	c.Guard(r2, cs, "transport entries copied", `^mapupdate:phi\(makemap\(wamp\.Dict\)\|phi\(nil\|phi↺\)\)\[range\(`+trans+`\)#k\]=`, 1,
		clause("key is not auth", F(`^\(range\(`+trans+`\)#k == "auth"\)$`)))
	hasAuth := clause("transport details carry auth data", F(`^\(call:wamp\.DictChild\(`+trans+`, "auth"\) == nil\)$`))
	c.Reach(r2, cs, "transport always replaced when auth data is present", ReachSpec{FromEdge: &hasAuth, Stop: `^mapupdate:makemap\(wamp\.Dict\)\["transport"\]=phi\(`, Target: "EXIT", Want: false})
	c.AllMatch(r2, cs, "copied values come from the session details under the same key", `^mapupdate:makemap\(wamp\.Dict\)\[(newarr|%r\.metaIncDetails)`, `^mapupdate:makemap\(wamp\.Dict\)\[(.+)\]=%details\[`, 2)
	c.R.Floor(r2, 7)

	// R3: disclosure guards
	const r3 = "C12.R3 identity disclosed only under the disclosure guards"
	pe := "router.prepareEvent"
	c.Guard(r3, pe, "publisher identity written", `^call:router\.disclosePublisher\(%pub, new\(wamp\.Event\)\.Details\)$`, 1,
		clause("disclosure decided for this publication", T(`^%disclose$`)),
		clause("a real recipient", F(`^\(%subscriber == nil\)$`)),
		clause("recipient announced publisher_identification", T(`^call:wamp\.\(\*Session\)\.HasFeature\(%subscriber, "subscriber", "publisher_identification"\)$`)))
	c.OnlyCalledFrom(r3, "publisher identity helper", `^router\.disclosePublisher$`, `^router\.prepareEvent$`, 1)
	c.OnlyCalledFrom(r3, "caller identity helper", `^router\.discloseCaller$`, `^router\.\(\*dealer\)\.syncCall$`, 2)
	for _, w := range []struct{ fn, key string }{{"router.disclosePublisher", `"publisher"`}, {"router.discloseCaller", `"caller"`}} {
		c.AllMatch(r3, w.fn, "identity keys only written by the disclosure helper", `^mapupdate:%details\[`, `^mapupdate:%details\[(`+w.key+`|call:fmt\.Sprintf\("%s_%s", )`, 2)
	}
	pub := brk + "publish"
	dme := `%msg\.Options\["disclose_me"\]\.\(bool\),ok#0`
	c.Guard(r3, pub, "disclose flag set", `^store:&local:disclose=true$`, 1, clause("publisher asked", T(`^`+dme+`$`)), clause("realm allows disclosure", T(`^%b\.allowDisclose$`)))
	c.AllMatch(r3, pub, "disclose flag only ever set to true under the guards", `^store:&local:disclose=`, `^store:&local:disclose=true$`, 1)
	c.Guard(r3, pub, "hand-off", `^send:%b\.actionChan<-closure:`, 1, clause("no disclose_me request, or disclosure allowed", F(`^`+dme+`$`), T(`^%b\.allowDisclose$`)))
	c.Fields(r3, pub, "disallowed disclose_me reply", "wamp.Error", fieldIs("Error", `option_disallowed`), map[string]string{
		"Request": `^%msg\.Request$`, "Type": `^call:wamp\.\(\*Publish\)\.MessageType\(%msg\)$`}, 1)
	c.Has(r3, pub+"$1", "disclosure decision handed to the action", `syncPublish\(\^b, \^pub, \^msg, \^pubID, \^excludePub, \^disclose, \^filter, \^details\)$`, 1)
	sc := dlr + "syncCall"
	optMe := `new\(router\.invocation\)\.options\["disclose_me"\]\.\(bool\),ok#0`
	if fn := c.Fn(r3, sc); fn != nil {
		dcs := matches(fn, `^call:router\.discloseCaller\(%caller, makemap\(wamp\.Dict\)\)$`)
		c.R.Check(len(dcs) == 2, r3, sc, "two caller-disclosure sites", c.P.FuncPos(fn), "expected the registration-requested and the caller-requested disclosure site")
		for i, e := range dcs {
			byReg, _ := ir.GuardedBy(fn, e, clause("registration asked for disclose_caller", T(`^`+dReg+`\.disclose$`)))
			byCaller := true
			for _, cl := range []ir.Clause{
				clause("caller asked (disclose_me)", T(`^`+optMe+`$`)),
				clause("realm allows disclosure", T(`^%d\.allowDisclose$`)),
				clause("callee announced caller_identification", T(`^call:wamp\.\(\*Session\)\.HasFeature\(.*, "callee", "caller_identification"\)$`)),
			} {
				if ok, _ := ir.GuardedBy(fn, e, cl); !ok {
					byCaller = false
				}
			}
			c.R.Check(byReg || byCaller, r3, sc, fmt.Sprintf("caller disclosure site %d is guarded by the registration's request or by (disclose_me, realm permission, callee feature)", i), c.pos(e),
				"caller identity is written on a path that satisfies neither guard set")
		}
	}
	c.Guard(r3, sc, "caller id for the meta session", `^mapupdate:makemap\(wamp\.Dict\)\["caller"\]=%caller\.ID$`, 1, clause("registration asked for disclose_caller", T(`^`+dReg+`\.disclose$`)))
	disallowed := clause("disclose_me on a realm that disallows it", F(`^%d\.allowDisclose$`))
	c.Reach(r3, sc, "a disallowed disclose_me never reaches the INVOCATION", ReachSpec{FromEdge: &disallowed, Target: `^select\{send:`, Want: false})
	c.Reach(r3, sc, "a disallowed disclose_me is answered", ReachSpec{FromEdge: &disallowed, Stop: dTrySendTo + `%caller, new\(wamp\.Error\)\)$`, Target: "EXIT", Want: false})
	reg := dlr + "register"
	c.Guard(r3, reg, "registration with disclose_caller handed off", `^send:%d\.actionChan<-closure:`, 1,
		clause("disclosure allowed, not requested, or requester trusted", T(`^%d\.allowDisclose$`), F(`^%msg\.Options\["disclose_caller"\]\.\(bool\),ok#0$`), T(`^\(call:wamp\.AsString\(%callee\.Details\["authrole"\]\)#0 == "trusted"\)$`)))
	c.R.Floor(r3, 24)

	// R4: private copies for in-process recipients
	ruleFeatureTable(c, r3) // the recipient's identification feature is the one it announced, for that role, as true
	const r4 = "C12.R4 in-process recipients get private copies"
	ruleLocalCopies(c, r4)
	c.R.Floor(r4, 8)

	// R5: session details leave the realm only through cleanSessionDetails
	const r5 = "C12.R5 whole session details are used only where reviewed"
	allowedUse := map[string]string{
		"router.(*realm).onJoin":             `^call:router\.\(\*realm\)\.cleanSessionDetails\(`,
		"router.(*realm).sessionGet":         `^call:router\.\(\*realm\)\.cleanSessionDetails\(`,
		"router.(*broker).syncPubEvent":      `^store:new\(wamp\.Session\)\.&Details=`,
		"router.(*realm).authzMessage":       `^store:new\(wamp\.Session\)\.&Details=`,
		"router.(*realm).modifySessionDetails": `^(mapupdate:|call:builtin:delete\()`,
	}
	nUses := 0
	for _, fn := range c.P.FuncsIn("router") {
		name := ir.ShortName(fn)
		for _, in := range ir.Instrs(fn) {
			ld, ok := in.(*ssa.UnOp)
			if !ok {
				continue
			}
			fa, ok := ld.X.(*ssa.FieldAddr)
			if !ok || ir.TypeStr(derefT(fa.X.Type())) != "wamp.Session" || !strings.HasSuffix(ir.Desc(fa), ".&Details") {
				continue
			}
			for _, u := range *ld.Referrers() {
				switch u.(type) {
				case *ssa.Lookup, *ssa.Range:
					continue // reading single entries
				}
				nUses++
				d := ir.InstrDesc(u)
				pat, ok := allowedUse[name]
				c.R.Check(ok && re(pat).MatchString(d), r5, name, "use of whole session details: "+strings.SplitN(d, "(", 2)[0], c.pos(u),
					"the session's live details map is used as a whole here ("+d+"); outside the reviewed sites it could leave the realm unfiltered or unlocked")
			}
		}
	}
	c.R.Check(nUses >= 5, r5, "router", "whole-details uses enumerated", "-", fmt.Sprintf("found %d, confirmed 5 by reading", nUses))
	c.R.Floor(r5, 6)
}

// ruleDictWrites: every dict written in the router is private to the writing activation.
func ruleDictWrites(c *Ctx, r1 string) {
	exempt := map[string]string{
		"router.(*realm).modifySessionDetails|%sess.Details":  "the session's own details, written under the session lock by the modify_details meta procedure (by design)",
		"router.(*router).AttachClient|call:wamp.RecvTimeout(%client, 5000000000)#0.(*wamp.Hello),ok#0.Details": "HELLO details of this handshake, replaced by a NormalizeDict copy before the write",
		"router.(*realm).authClient|call:invoke:auth.Authenticator.Authenticate": "WELCOME details returned by the authenticator for this handshake only",
	}
	paramWriters := map[string]int{} // function -> parameter index whose dict it writes
	type site struct {
		fn   *ssa.Function
		in   ssa.Instruction
		m    ssa.Value
		desc string
	}
	var sites []site
	for _, fn := range c.P.FuncsIn("router") {
		for _, in := range ir.Instrs(fn) {
			var m ssa.Value
			switch x := in.(type) {
			case *ssa.MapUpdate:
				m = x.Map
			case *ssa.Call:
				if b, ok := x.Call.Value.(*ssa.Builtin); ok && b.Name() == "delete" {
					m = x.Call.Args[0]
				}
			}
			if m == nil || !isMsgDict(m.Type()) {
				continue
			}
			sites = append(sites, site{fn, in, m, ir.Desc(m)})
		}
	}
	nWrites := 0
	for _, s := range sites {
		name := ir.ShortName(s.fn)
		nWrites++
		construct := "dict write to " + s.desc
		if freshMap(s.m, 0) {
			c.R.OK(r1, name, construct+" (fresh)", c.pos(s.in), "")
			continue
		}
		if p, ok := s.m.(*ssa.Parameter); ok {
			idx := -1
			for i, q := range s.fn.Params {
				if q == p {
					idx = i
				}
			}
			paramWriters[name] = idx
			c.R.OK(r1, name, construct+" (parameter: obligation moves to the call sites)", c.pos(s.in), "")
			continue
		}
		why := ""
		for k, w := range exempt {
			parts := strings.SplitN(k, "|", 2)
			if parts[0] == name && strings.HasPrefix(s.desc, parts[1]) {
				why = w
			}
		}
		if why != "" {
			c.R.OK(r1, name, construct+" (exempt: "+why+")", c.pos(s.in), "")
			continue
		}
		c.R.Bad(r1, name, construct+" is fresh", c.pos(s.in),
			"the dict written here was not created in this activation (it is "+s.desc+"): it may be shared with another recipient's message, with router state, or be written after delivery")
	}
	// call sites of parameter writers pass fresh dicts
	for _, name := range sortedKeys(paramWriters) {
		idx := paramWriters[name]
		cs := c.CallSites("^" + q(name) + "$")
		if len(cs) == 0 {
			c.R.Unknown(r1, name, "call sites of dict-writing helper", "-", "no call sites found")
		}
		for i, s := range cs {
			call := s.In.(ssa.CallInstruction).Common()
			arg := call.Args[idx]
			ok := freshMap(arg, 0)
			if !ok {
				// a parameter of the caller that is itself a registered writer chain
				if p, isP := arg.(*ssa.Parameter); isP {
					_ = p
				}
			}
			c.R.Check(ok, r1, ir.ShortName(s.Caller), fmt.Sprintf("call #%d of %s passes a fresh dict (%s)", i, name, ir.Desc(arg)), c.pos(s.In),
				name+" writes into its dict parameter, and this call passes "+ir.Desc(arg)+", which was not created in the calling activation")
		}
	}
	c.R.Check(nWrites >= 25, r1, "router", "dict write sites enumerated", "-", fmt.Sprintf("only %d dict write sites found; 25 were confirmed by reading", nWrites))
}

// ruleLocalCopies: what an in-process recipient gets (event details, arguments, keyword arguments, meta events) is a
// private copy, so that a handler writing into its message cannot change what co-recipients or the publisher see.
func ruleLocalCopies(c *Ctx, r4 string) {
	pe := "router.prepareEvent"
	local := clause("recipient is in-process", T(`^call:invoke:wamp\.Peer\.IsLocal\[%subscriber\.Peer\]\(\)$`))
	c.Reach(r4, pe, "details copied for a local recipient", ReachSpec{FromEdge: &local, Stop: `^store:new\(wamp\.Event\)\.&Details=makemap\(map\[string\]any\)$`,
		Cut: []ir.Clause{clause("no details", T(`^\(new\(wamp\.Event\)\.Details == nil\)$`))}, Target: "EXIT", Want: false})
	c.Reach(r4, pe, "arguments cloned for a local recipient", ReachSpec{FromEdge: &local, Stop: `^store:new\(wamp\.Event\)\.&Arguments=call:slices\.Clone\(%msg\.Arguments\)$`,
		Cut: []ir.Clause{clause("no arguments", T(`^\(%msg\.Arguments == nil\)$`))}, Target: "EXIT", Want: false})
	c.Reach(r4, pe, "keyword arguments copied for a local recipient", ReachSpec{FromEdge: &local, Stop: `^store:new\(wamp\.Event\)\.&ArgumentsKw=makemap\(map\[string\]any\)$`,
		Cut: []ir.Clause{clause("no keyword arguments", T(`^\(%msg\.ArgumentsKw == nil\)$`))}, Target: "EXIT", Want: false})
	c.Has(r4, pe, "details copy source", `^call:maps\.Copy\(makemap\(map\[string\]any\), new\(wamp\.Event\)\.Details\)$`, 1)
	for _, m := range []string{"syncPubSubMeta", "syncPubSubCreateMeta"} {
		f := brk + m + "$1"
		// (the event constructor, a local closure in the pinned tree, is inlined by the normalisation pass)
		c.Guard(r4, f, "shared meta event only for remote subscribers", `^call:router\.\(\*broker\)\.trySend\(\^b, range\(%metaSub\.subscribers\)#k, phi\(`, 1,
			clause("recipient is not in-process", F(`^call:invoke:wamp\.Peer\.IsLocal\[range\(%metaSub\.subscribers\)#k\.Peer\]\(\)$`)))
		mkCall := `call:(router\.\(\*broker\)\.` + m + `\$1\$1|dyn:[%^]makeEvent)\(\)` // the constructor when it is passed on as a value and therefore stays a closure
		c.Guard(r4, f, "local subscriber gets a meta event built for it in this iteration", `^call:router\.\(\*broker\)\.trySend\(\^b, range\(%metaSub\.subscribers\)#k, (new\(wamp\.Event\)|`+mkCall+`)\)$`, 1,
			clause("recipient is in-process", T(`^call:invoke:wamp\.Peer\.IsLocal\[range\(%metaSub\.subscribers\)#k\.Peer\]\(\)$`)))
		// the event given to a local subscriber is allocated after the recipient was found to be local (per iteration)
		c.Reach(r4, f, "no local delivery of an event allocated outside the local branch", ReachSpec{
			FromEdge: &ir.Clause{Name: "recipient is in-process", Edges: []ir.EdgeSpec{T(`^call:invoke:wamp\.Peer\.IsLocal\[range\(%metaSub\.subscribers\)#k\.Peer\]\(\)$`)}},
			Stop:     `^store:new\(wamp\.Event\)\.&Subscription=|^` + mkCall + `$`, Target: `^call:router\.\(\*broker\)\.trySend\(`, Want: false})
	}
}
