// Package report holds obligations, verdicts, evidence files, replay records
// and the known-findings matching.
package report

import (
	"crypto/sha1"
	"encoding/hex"
	"encoding/json"
	"fmt"
	"os"
	"path/filepath"
	"sort"
	"strings"
	"time"
)

const (
	Discharged = "discharged"
	Violated   = "violated"
	Undecided  = "undecided"
)

// Obligation is one rule instantiated on one construct of today's program.
type Obligation struct {
	Rule    string `json:"rule"`
	Key     string `json:"key"` // rule | function | construct — no line numbers
	Pos     string `json:"pos"` // file:line (informational)
	Verdict string `json:"verdict"`
	Detail  string `json:"detail,omitempty"`
	Known   string `json:"known_finding,omitempty"`
}

// Run accumulates the obligations of one property check.
type Run struct {
	Property string
	Tier     string
	Seed     int
	Start    time.Time
	Obls     []Obligation
	// Floors: rule -> minimum number of obligations that must be produced.
	Floors map[string]int
	// Notes are appended to the evidence explanation.
	Decides    string
	NotDecided string
	Analysed   map[string]int // counts: packages, functions, ...
	Trusted    []string
	Assume     []string
	Extra      map[string]any
	seenKeys   map[string]int
}

func NewRun(prop, tier string, seed int) *Run {
	return &Run{Property: prop, Tier: tier, Seed: seed, Start: time.Now(), Floors: map[string]int{},
		Analysed: map[string]int{}, Extra: map[string]any{}, seenKeys: map[string]int{}}
}

// Floor records the minimum instance count for a rule.
func (r *Run) Floor(rule string, n int) { r.Floors[rule] = n }

func (r *Run) add(o Obligation) {
	// keys must be unique; disambiguate deterministic duplicates with #n
	r.seenKeys[o.Key]++
	if n := r.seenKeys[o.Key]; n > 1 {
		o.Key = fmt.Sprintf("%s #%d", o.Key, n)
	}
	r.Obls = append(r.Obls, o)
}

// Key builds a construct key.
func Key(rule, fn, construct string) string {
	return rule + " | " + fn + " | " + construct
}

func (r *Run) OK(rule, fn, construct, pos, detail string) {
	r.add(Obligation{Rule: rule, Key: Key(rule, fn, construct), Pos: pos, Verdict: Discharged, Detail: detail})
}

func (r *Run) Bad(rule, fn, construct, pos, detail string) {
	r.add(Obligation{Rule: rule, Key: Key(rule, fn, construct), Pos: pos, Verdict: Violated, Detail: detail})
}

func (r *Run) Unknown(rule, fn, construct, pos, detail string) {
	r.add(Obligation{Rule: rule, Key: Key(rule, fn, construct), Pos: pos, Verdict: Undecided, Detail: detail})
}

// Check adds a discharged or violated obligation depending on ok.
func (r *Run) Check(ok bool, rule, fn, construct, pos, detailBad string) {
	if ok {
		r.OK(rule, fn, construct, pos, "")
	} else {
		r.Bad(rule, fn, construct, pos, detailBad)
	}
}

// KnownFinding is one entry of /verif/known_findings.json.
type KnownFinding struct {
	Property string `json:"property"`
	Status   string `json:"status"` // "known" | "fixed"
	Key      string `json:"key"`    // obligation key (exact) it refers to
	Commit   string `json:"commit,omitempty"`
	What     string `json:"what"`
}

type KnownFile struct {
	Comment  string         `json:"_comment,omitempty"`
	Findings []KnownFinding `json:"findings"`
}

func LoadKnown(path string) (*KnownFile, error) {
	b, err := os.ReadFile(path)
	if err != nil {
		if os.IsNotExist(err) {
			return &KnownFile{}, nil
		}
		return nil, err
	}
	var kf KnownFile
	if err := json.Unmarshal(b, &kf); err != nil {
		return nil, fmt.Errorf("%s: %w", path, err)
	}
	return &kf, nil
}

// Finish applies floors and known findings, writes evidence and replay
// files under verifDir, prints the interface lines and returns the exit code.
func (r *Run) Finish(verifDir string, known *KnownFile) int {
	// floors
	counts := map[string]int{}
	for _, o := range r.Obls {
		counts[o.Rule]++
	}
	var rules []string
	for rule := range r.Floors {
		rules = append(rules, rule)
	}
	sort.Strings(rules)
	for _, rule := range rules {
		if counts[rule] < r.Floors[rule] {
			r.Unknown("VACUITY", rule, fmt.Sprintf("floor %d", r.Floors[rule]), "-",
				fmt.Sprintf("rule %s produced %d obligations, fewer than the %d confirmed by reading: the anchored constructs were not found", rule, counts[rule], r.Floors[rule]))
		}
	}
	if len(r.Obls) == 0 {
		r.Unknown("VACUITY", r.Property, "no obligations", "-", "the check produced no obligations at all")
	}

	knownByKey := map[string]KnownFinding{}
	for _, k := range known.Findings {
		if k.Property == r.Property && k.Status == "known" {
			knownByKey[k.Key] = k
		}
	}

	replayDir := filepath.Join(verifDir, "evidence", "replay")
	_ = os.MkdirAll(replayDir, 0o755)
	// remove stale replays of this property
	if ents, err := os.ReadDir(replayDir); err == nil {
		for _, e := range ents {
			if strings.HasPrefix(e.Name(), r.Property+"-") {
				_ = os.Remove(filepath.Join(replayDir, e.Name()))
			}
		}
	}

	exit := 0
	nViol, nKnown, nDis, nUnd := 0, 0, 0, 0
	var lines []string
	for i := range r.Obls {
		o := &r.Obls[i]
		switch o.Verdict {
		case Discharged:
			nDis++
		case Violated, Undecided:
			if k, ok := knownByKey[o.Key]; ok && o.Verdict == Violated {
				o.Known = k.What
				nKnown++
				lines = append(lines, fmt.Sprintf("KNOWN-FINDING: property=%s %s [%s at %s]", r.Property, k.What, o.Key, o.Pos))
				continue
			}
			if o.Verdict == Violated {
				nViol++
			} else {
				nUnd++
			}
			h := sha1.Sum([]byte(o.Key))
			name := fmt.Sprintf("%s-%s.json", r.Property, hex.EncodeToString(h[:5]))
			path := filepath.Join(replayDir, name)
			rec := map[string]any{"property": r.Property, "kind": o.Verdict, "rule": o.Rule, "key": o.Key, "pos": o.Pos, "detail": o.Detail,
				"replay": fmt.Sprintf("cd /verif && bin/nxcheck check -property %s -tier %s   # static: re-analyses /repo and re-reports this construct", r.Property, r.Tier)}
			b, _ := json.MarshalIndent(rec, "", " ")
			_ = os.WriteFile(path, b, 0o644)
			lines = append(lines, fmt.Sprintf("VIOLATION property=%s replay=%s kind=%s rule=%q at %s: %s :: %s", r.Property, path, o.Verdict, o.Rule, o.Pos, o.Key, oneLine(o.Detail)))
			exit = 1
		}
	}

	// evidence
	samples := make([]any, 0, len(r.Obls))
	for _, o := range r.Obls {
		samples = append(samples, o)
	}
	perRule := map[string]map[string]int{}
	for _, o := range r.Obls {
		m := perRule[o.Rule]
		if m == nil {
			m = map[string]int{}
			perRule[o.Rule] = m
		}
		m[o.Verdict]++
	}
	cov := map[string]any{
		"explanation": "Static analysis of /repo's current working tree (go/packages + go/types + go/ssa; nothing is executed). " +
			"DECIDES (structural necessary conditions only): " + r.Decides + " NOT DECIDED: " + r.NotDecided,
		"obligations":     len(r.Obls),
		"discharged":      nDis,
		"violated":        nViol,
		"undecided":       nUnd,
		"known_findings":  nKnown,
		"per_rule":        perRule,
		"instance_floors": r.Floors,
		"analysed":        r.Analysed,
		"samples":         samples,
		"checker_cmd":     fmt.Sprintf("bin/nxcheck check -property %s -tier %s", r.Property, r.Tier),
		"trusted_base":    r.Trusted,
		"rule":            "one obligation = one rule instantiated on one construct (function, call site, field, switch arm, CFG edge set) of the tree as loaded on this run; keys carry no line numbers",
		"exhaustive":      false,
	}
	for k, v := range r.Extra {
		cov[k] = v
	}
	ev := map[string]any{
		"property_id": r.Property,
		"tier":        r.Tier,
		"seed":        r.Seed,
		"level":       "other",
		"coverage":    cov,
		"assumptions": r.Assume,
		"wall_s":      time.Since(r.Start).Seconds(),
		"violations":  nViol + nUnd,
	}
	b, _ := json.MarshalIndent(ev, "", " ")
	evPath := filepath.Join(verifDir, "evidence", r.Property+".json")
	if err := os.WriteFile(evPath, b, 0o644); err != nil {
		fmt.Println("cannot write evidence:", err)
		exit = 1
	}

	fmt.Printf("property=%s tier=%s obligations=%d discharged=%d known=%d violated=%d undecided=%d wall=%.1fs\n",
		r.Property, r.Tier, len(r.Obls), nDis, nKnown, nViol, nUnd, time.Since(r.Start).Seconds())
	for _, l := range lines {
		fmt.Println(l)
	}
	return exit
}

func oneLine(s string) string {
	s = strings.ReplaceAll(s, "\n", " ⏎ ")
	if len(s) > 600 {
		s = s[:600] + "…"
	}
	return s
}
