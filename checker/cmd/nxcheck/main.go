// nxcheck: repository-specific static checker for gammazero/nexus.
//
//	nxcheck check -property C04 [-tier quick|thorough] [-repo /repo] [-verif /verif]
//	nxcheck dump  -func 'router.(*dealer).syncCall' [-repo /repo]
//	nxcheck funcs [-repo /repo]
package main

import (
	"encoding/json"
	"flag"
	"fmt"
	"go/types"
	"os"
	"os/exec"
	"regexp"
	"sort"
	"strconv"
	"strings"
	"sync"
	"time"

	"golang.org/x/tools/go/ssa"

	"nxcheck/internal/ir"
	"nxcheck/internal/props"
	"nxcheck/internal/report"
)

func main() {
	if len(os.Args) < 2 {
		fmt.Fprintln(os.Stderr, "usage: nxcheck check|dump|funcs ...")
		os.Exit(2)
	}
	switch os.Args[1] {
	case "check":
		os.Exit(cmdCheck(os.Args[2:]))
	case "dump":
		cmdDump(os.Args[2:])
	case "funcs":
		cmdFuncs(os.Args[2:])
	case "freeze":
		// prints the current parameter / captured-variable names of all nexus functions (input of internal/props/frozen_names.json)
		p, err := ir.Load("/repo")
		if err != nil {
			fmt.Fprintln(os.Stderr, err)
			os.Exit(1)
		}
		out := map[string]ir.CanonNames{}
		for _, fn := range p.NexusFuncs {
			var cn ir.CanonNames
			for _, q := range fn.Params {
				cn.Params = append(cn.Params, q.Name())
			}
			for _, q := range fn.FreeVars {
				cn.FreeVars = append(cn.FreeVars, q.Name())
			}
			for _, a := range ir.NamedLocals(fn) {
				cn.Locals = append(cn.Locals, a.Comment)
			}
			out[ir.ShortName(fn)] = cn
		}
		// field names of the repository's named struct types (key "type:<pkg>.<Type>", names in Params)
		for rel, pk := range p.ByRel {
			sc := pk.Types.Scope()
			for _, nm := range sc.Names() {
				tn, ok := sc.Lookup(nm).(*types.TypeName)
				if !ok {
					continue
				}
				st, ok := tn.Type().Underlying().(*types.Struct)
				if !ok || st.NumFields() == 0 {
					continue
				}
				var cn ir.CanonNames
				for i := 0; i < st.NumFields(); i++ {
					cn.Params = append(cn.Params, st.Field(i).Name())
				}
				out["type:"+rel+"."+nm] = cn
			}
		}
		b, _ := json.MarshalIndent(out, "", " ")
		fmt.Println(string(b))
	case "describe":
		out := map[string]map[string]string{}
		for _, id := range props.IDs() {
			ck := props.Get(id)
			out[id] = map[string]string{"decides": ck.Decides, "not_decided": ck.NotDecided}
		}
		b, _ := json.MarshalIndent(out, "", " ")
		fmt.Println(string(b))
	default:
		fmt.Fprintln(os.Stderr, "unknown command", os.Args[1])
		os.Exit(2)
	}
}

func cmdCheck(args []string) (code int) {
	fs := flag.NewFlagSet("check", flag.ExitOnError)
	prop := fs.String("property", "", "property id (C01..C20) or 'all'")
	tier := fs.String("tier", "", "quick|thorough (default from VERIF_TIER or quick)")
	repo := fs.String("repo", "/repo", "repository root")
	verif := fs.String("verif", "/verif", "verif root")
	_ = fs.Parse(args)
	if *tier == "" {
		*tier = os.Getenv("VERIF_TIER")
	}
	if *tier != "thorough" {
		*tier = "quick"
	}
	seed, _ := strconv.Atoi(os.Getenv("VERIF_SEED"))
	ids := []string{*prop}
	if *prop == "all" {
		ids = props.IDs()
	}
	known, err := report.LoadKnown(*verif + "/known_findings.json")
	if err != nil {
		fmt.Printf("VIOLATION property=%s replay=- kind=undecided cannot read known_findings.json: %v\n", *prop, err)
		return 1
	}
	fail := func(id string, err any) int {
		r := report.NewRun(id, *tier, seed)
		r.Unknown("LOAD", id, "load/analyse", "-", fmt.Sprint(err))
		return r.Finish(*verif, known)
	}
	t0 := time.Now()
	p, err := ir.Load(*repo)
	if err != nil {
		for _, id := range ids {
			fail(id, err)
		}
		return 1
	}
	var alt *ir.Prog
	if *tier == "thorough" {
		alt, err = ir.Load(*repo, "GOARCH=386")
		if err != nil {
			for _, id := range ids {
				fail(id, fmt.Errorf("GOARCH=386: %w", err))
			}
			return 1
		}
	}
	for _, id := range ids {
		ck := props.Get(id)
		if ck == nil {
			fmt.Printf("VIOLATION property=%s replay=- kind=undecided no such check\n", id)
			code = 1
			continue
		}
		func() {
			r := report.NewRun(id, *tier, seed)
			r.Start = t0
			r.Decides, r.NotDecided = ck.Decides, ck.NotDecided
			r.Trusted = []string{"go/packages, go/types, go/ssa (golang.org/x/tools v0.50.0) and the go1.26.8 front end", "the obligation tables in /verif/checker/internal/props (derived from the property statements)", "the normalisation pass of internal/ir (semantics-preserving source-level inlining of call-only closures and of helpers newer than the rules; re-type-checked)",
				"third-party code reached from nexus (gorilla/websocket, ugorji codec, deque, x/crypto) and user-supplied callbacks carry no obligations"}
			r.Assume = []string{"default build configuration (linux/amd64, no build tags); thorough tier adds GOARCH=386",
				"a structural necessary condition is decided, not the behavioural property: passing does not prove the property",
				"functions are identified by package, receiver and name as anchored in properties.jsonl; a renamed anchor yields 'undecided' (exit 1), never a silent pass"}
			r.Analysed["packages"] = len(p.Pkgs)
			r.Analysed["functions_with_bodies"] = len(p.NexusFuncs)
			r.Analysed["helpers_inlined_by_normalisation"] = len(p.Inlined)
			if len(p.Notes) > 0 {
				r.Extra["normalisation"] = p.Notes
				for _, n := range p.Notes {
					fmt.Println("NOTE normalisation:", n)
				}
			}
			defer func() {
				if e := recover(); e != nil {
					r.Unknown("PANIC", id, "checker panic", "-", fmt.Sprint(e))
					if r.Finish(*verif, known) != 0 {
						code = 1
					}
				}
			}()
			ck.Run(&props.Ctx{P: p, R: r, Tier: *tier, Alt: alt})
			if *tier == "thorough" && alt != nil {
				// second pass: the same obligations on the GOARCH=386 build configuration
				r2 := report.NewRun(id, *tier, seed)
				ck.Run(&props.Ctx{P: alt, R: r2, Tier: *tier})
				for _, o := range r2.Obls {
					o.Rule = "[GOARCH=386] " + o.Rule
					o.Key = "[GOARCH=386] " + o.Key
					r.Obls = append(r.Obls, o)
				}
				for k, v := range r2.Floors {
					r.Floors["[GOARCH=386] "+k] = v
				}
				r.Analysed["build_configurations"] = 2
				// sensitivity bank (informational): seeded variants this check is recorded to detect
				r.Extra["sensitivity_bank"] = runBank(id, *repo, *verif)
			}
			if r.Finish(*verif, known) != 0 {
				code = 1
			}
		}()
	}
	return code
}

func cmdFuncs(args []string) {
	fs := flag.NewFlagSet("funcs", flag.ExitOnError)
	repo := fs.String("repo", "/repo", "repository root")
	_ = fs.Parse(args)
	p, err := ir.Load(*repo)
	if err != nil {
		fmt.Fprintln(os.Stderr, err)
		os.Exit(1)
	}
	for _, fn := range p.NexusFuncs {
		fmt.Println(ir.ShortName(fn), p.FuncPos(fn))
	}
}

func cmdDump(args []string) {
	fs := flag.NewFlagSet("dump", flag.ExitOnError)
	repo := fs.String("repo", "/repo", "repository root")
	name := fs.String("func", "", "function short name (regexp)")
	_ = fs.Parse(args)
	p, err := ir.Load(*repo)
	if err != nil {
		fmt.Fprintln(os.Stderr, err)
		os.Exit(1)
	}
	re := regexp.MustCompile("^(" + *name + ")$")
	for _, fn := range p.NexusFuncs {
		if !re.MatchString(ir.ShortName(fn)) {
			continue
		}
		fmt.Printf("=== %s  %s\n", ir.ShortName(fn), p.FuncPos(fn))
		for _, b := range fn.Blocks {
			var succ []string
			for i, s := range b.Succs {
				lab := strconv.Itoa(s.Index)
				if a, ok := ir.EdgeAtom(b, i); ok {
					lab += "[" + a.String() + "]"
				}
				succ = append(succ, lab)
			}
			fmt.Printf(" b%d (%s) -> %s\n", b.Index, b.Comment, strings.Join(succ, " , "))
			for _, in := range b.Instrs {
				if v, ok := in.(ssa.Value); ok {
					switch x := in.(type) {
					case *ssa.Call, *ssa.Select:
					case *ssa.UnOp:
						if x.Op.String() != "<-" {
							continue
						}
					default:
						_ = v
						continue
					}
				}
				switch in.(type) {
				case *ssa.Jump, *ssa.If:
					continue
				}
				fmt.Printf("    %-14s %s\n", p.Pos(in.Pos()), ir.InstrDesc(in))
			}
		}
	}
}

// runBank applies every seeded variant that /verif/seeded/BANK.json records as
// detected by this property's check to a scratch copy of the repository
// (outside /repo and /verif, removed right away) and re-runs the quick check
// on it in a child process. It reports kill counts; it never changes the
// verdict derived from /repo itself.
func runBank(id, repo, verif string) map[string]any {
	out := map[string]any{}
	b, err := os.ReadFile(verif + "/seeded/BANK.json")
	if err != nil {
		out["error"] = "no BANK.json: " + err.Error()
		return out
	}
	var bank map[string]struct {
		Patch      string   `json:"patch"`
		Reverse    bool     `json:"reverse"`
		What       string   `json:"what"`
		Applies    bool     `json:"applies"`
		DetectedBy []string `json:"detected_by"`
	}
	if err := json.Unmarshal(b, &bank); err != nil {
		out["error"] = err.Error()
		return out
	}
	var names []string
	silent := map[string]bool{} // behaviour-preserving refactorings written against this property: the check must stay silent
	for n, v := range bank {
		if strings.HasPrefix(n, "refactor-"+id+"-") {
			names = append(names, n)
			silent[n] = true
			continue
		}
		if strings.HasPrefix(n, "refactor-") {
			continue
		}
		for _, d := range v.DetectedBy {
			if d == id {
				names = append(names, n)
			}
		}
	}
	sort.Strings(names)
	type res struct {
		Variant  string `json:"variant"`
		What     string `json:"what"`
		Result   string `json:"result"`
		Findings int    `json:"violation_lines"`
	}
	results := make([]res, len(names))
	sem := make(chan struct{}, 4)
	var wg sync.WaitGroup
	self, _ := os.Executable()
	for i, n := range names {
		wg.Add(1)
		go func(i int, n string) {
			defer wg.Done()
			sem <- struct{}{}
			defer func() { <-sem }()
			v := bank[n]
			r := res{Variant: n, What: v.What}
			tmp, err := os.MkdirTemp("", "nxbank-")
			if err != nil {
				r.Result = "skipped: " + err.Error()
				results[i] = r
				return
			}
			defer os.RemoveAll(tmp)
			if err := exec.Command("rsync", "-a", "--exclude", ".git", repo+"/", tmp+"/repo/").Run(); err != nil {
				r.Result = "skipped: copy failed"
				results[i] = r
				return
			}
			_ = os.MkdirAll(tmp+"/verif/evidence", 0o755)
			if kb, err := os.ReadFile(verif + "/known_findings.json"); err == nil {
				_ = os.WriteFile(tmp+"/verif/known_findings.json", kb, 0o644)
			}
			args := []string{"apply"}
			if v.Reverse {
				args = append(args, "-R")
			}
			args = append(args, verif+"/"+v.Patch)
			cmd := exec.Command("git", args...)
			cmd.Dir = tmp + "/repo"
			if err := cmd.Run(); err != nil {
				r.Result = "skipped: context no longer applies"
				results[i] = r
				return
			}
			child := exec.Command(self, "check", "-property", id, "-tier", "quick", "-repo", tmp+"/repo", "-verif", tmp+"/verif")
			ob, _ := child.CombinedOutput()
			r.Findings = strings.Count(string(ob), "VIOLATION property="+id)
			switch {
			case silent[n] && r.Findings == 0:
				r.Result = "silent (as required for a behaviour-preserving refactoring)"
			case silent[n]:
				r.Result = "FALSE-ALARM"
			case r.Findings > 0:
				r.Result = "detected"
			default:
				r.Result = "MISSED"
			}
			results[i] = r
		}(i, n)
	}
	wg.Wait()
	killed, skipped, quiet, alarms := 0, 0, 0, 0
	for _, r := range results {
		switch {
		case strings.HasPrefix(r.Result, "silent"):
			quiet++
		case r.Result == "FALSE-ALARM":
			alarms++
		case r.Result == "detected":
			killed++
		case strings.HasPrefix(r.Result, "skipped"):
			skipped++
		}
	}
	out["variants"] = len(results)
	out["detected"] = killed
	out["skipped"] = skipped
	out["refactorings_silent"] = quiet
	out["refactorings_false_alarm"] = alarms
	out["missed"] = len(results) - killed - skipped - quiet - alarms
	out["results"] = results
	if alarms > 0 {
		fmt.Printf("BANK-FALSE-ALARM property=%s %d behaviour-preserving refactoring(s) of the bank raise an alarm (see evidence)\n", id, alarms)
	}
	if len(results)-killed-skipped-quiet-alarms > 0 {
		fmt.Printf("BANK-MISS property=%s %d seeded variant(s) recorded as detected were not detected on this run (see evidence)\n", id, len(results)-killed-skipped-quiet-alarms)
	}
	return out
}
