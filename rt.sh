#!/bin/sh
# run the repository's unedited test suite with a hard timeout; print only failures. usage: rt.sh [dir]
cd ${1:-/repo} || exit 2
for try in 1 2; do
  go test -vet=off -count=1 -timeout 240s ./... > /tmp/rt.$$.out 2>&1
  rc=$?
  if [ $rc -eq 0 ]; then echo "TESTS PASS (try $try)"; rm -f /tmp/rt.$$.out; exit 0; fi
  cp /tmp/rt.$$.out /tmp/rt.fail$try.out; echo "--- try $try failed:"; grep -E '^(FAIL|--- FAIL|panic|ok)' /tmp/rt.$$.out | head -20
done
cp /tmp/rt.$$.out /tmp/rt.last.out; rm -f /tmp/rt.$$.out
exit 1
