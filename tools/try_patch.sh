#!/bin/sh
# usage: try_patch.sh [-R] <patch.diff> "<C01 C04 ...|all>"
# applies the patch to /repo, runs the named checks (quick tier), always restores /repo.
REV=""
if [ "$1" = "-R" ]; then REV="-R"; shift; fi
PATCH=$(realpath "$1"); PROPS=${2:-all}
cd /repo || exit 2
if [ -n "$(git status --porcelain)" ]; then echo "/repo not clean"; exit 2; fi
git apply $REV "$PATCH" || { echo "PATCH DOES NOT APPLY"; exit 3; }
. /verif/env.sh
if ! go build ./... 2>/tmp/try_patch.build; then echo "DOES NOT COMPILE"; head -5 /tmp/try_patch.build; git checkout -- .; git clean -fdq; exit 4; fi
cd /verif
rc=0
for p in $PROPS; do
  bin/nxcheck check -property $p > /tmp/try_patch.out 2>&1 || rc=1
  grep -E '^(property=|VIOLATION|KNOWN)' /tmp/try_patch.out | cut -c1-420
done
git -C /repo checkout -- . ; git -C /repo clean -fdq
# evidence files were rewritten against the patched tree: regenerate on the clean tree
for p in $PROPS; do bin/nxcheck check -property $p > /dev/null 2>&1; done
exit $rc
