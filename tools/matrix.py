#!/usr/bin/env python3
"""Runs every seeded variant (confirmed mutants and reverted fixes) against all checks, on scratch copies of /repo,
and writes /verif/seeded/BANK.json: which properties' checks detect which variant. Used by the thorough tier's
sensitivity bank and by DESIGN.md's detection table."""
import json, os, subprocess, shutil, sys, tempfile, re, concurrent.futures
SEEDED='/verif/seeded'
def variants():
    out=[]
    for d in sorted(os.listdir(SEEDED)):
        p=os.path.join(SEEDED,d)
        if not os.path.isdir(p): continue
        if d=='refactors':
            # behaviour-preserving refactorings: every check must stay silent on them
            for r in sorted(os.listdir(p)):
                q=os.path.join(p,r)
                if os.path.exists(os.path.join(q,'patch.diff')):
                    meta=json.load(open(os.path.join(q,'meta.json')))
                    out.append(('refactor-'+r, os.path.join(q,'patch.diff'), False, (meta.get('kind','')+': '+meta.get('summary',''))[:200]))
            continue
        if d.startswith('revert-'):
            if os.path.exists(os.path.join(p,'reintroduce.diff')):
                # the fix no longer reverts cleanly on HEAD (later fixes touched the same lines): forward patch that re-introduces the defect
                out.append((d, os.path.join(p,'reintroduce.diff'), False, open(os.path.join(p,'subject.txt')).read().strip()))
            else:
                out.append((d, os.path.join(p,'fix.diff'), True, open(os.path.join(p,'subject.txt')).read().strip()))
        elif os.path.exists(os.path.join(p,'patch.diff')):
            meta=json.load(open(os.path.join(p,'meta.json')))
            out.append((d, os.path.join(p,'patch.diff'), False, meta.get('summary','')[:200]))
    return out
def run(v):
    name,patch,rev,what=v
    tmp=tempfile.mkdtemp(prefix='nxm-')
    try:
        repo=os.path.join(tmp,'repo'); verif=os.path.join(tmp,'verif')
        subprocess.run(['rsync','-a','--exclude','.git','/repo/',repo+'/'],check=True)
        os.makedirs(os.path.join(verif,'evidence'))
        shutil.copy('/verif/known_findings.json',verif)
        cmd=['git','apply']+(['-R'] if rev else [])+[patch]
        r=subprocess.run(cmd,cwd=repo,capture_output=True,text=True)
        if r.returncode!=0 or not subprocess.run(['git','diff','--no-index','--quiet','/repo/router',repo+'/router'],capture_output=True).returncode and not subprocess.run(['diff','-rq','--exclude=.git','/repo',repo],capture_output=True,text=True).stdout.strip():
            return name,{'patch':os.path.relpath(patch,'/verif'),'reverse':rev,'what':what,'applies':False,'detected_by':[]}
        r=subprocess.run(['/verif/bin/nxcheck','check','-property','all','-repo',repo,'-verif',verif],capture_output=True,text=True)
        det=sorted(set(re.findall(r'^VIOLATION property=(C\d+)',r.stdout,re.M)))
        return name,{'patch':os.path.relpath(patch,'/verif'),'reverse':rev,'what':what,'applies':True,'detected_by':det}
    finally:
        shutil.rmtree(tmp,ignore_errors=True)
vs=variants()
res={}
# `matrix.py only <prefix>…`: re-run the variants whose name starts with one of the prefixes and merge into the bank
if len(sys.argv) > 2 and sys.argv[1] == 'only':
    res=json.load(open(os.path.join(SEEDED,'BANK.json')))
    vs=[v for v in vs if any(v[0].startswith(p) for p in sys.argv[2:])]
    present={v[0] for v in variants()}
    res={k:v for k,v in res.items() if k in present}
with concurrent.futures.ThreadPoolExecutor(max_workers=6) as ex:
    for name,r in ex.map(run,vs):
        res[name]=r
        print(name, 'applies' if r['applies'] else 'DOES NOT APPLY', r['detected_by'], flush=True)
json.dump(res,open(os.path.join(SEEDED,'BANK.json'),'w'),indent=1,sort_keys=True)
missed=[n for n,r in res.items() if r['applies'] and not r['detected_by'] and not n.startswith('refactor-')]
alarms=[n for n,r in res.items() if n.startswith('refactor-') and r['detected_by']]
print('variants',len(res),'missed',missed,'false alarms on refactorings',alarms)
