#!/bin/bash
# usage: confirm_mutant.sh <mutant dir (patch.diff, demo_test.go.txt, meta.json)> <seeded id>
# Confirms in a scratch worktree of /repo HEAD: patch applies, builds, demo fails with it, suite passes with it,
# demo passes without it. On success copies to /verif/seeded/<id>/ with meta.json extended by what was run.
M=$1; ID=$2
WT=/tmp/confirm-$$
git -C /repo worktree add -q --detach $WT HEAD || exit 2
cleanup() { git -C /repo worktree remove --force $WT; }
trap cleanup EXIT
cd $WT
first=$(head -1 $M/demo_test.go.txt)
dest=$(echo "$first" | grep -oE '[a-zA-Z0-9_/.-]+_test\.go' | head -1 | sed -E 's#^.*/(router|client|transport|wamp|test)/#\1/#; s#^/##')
[ -z "$dest" ] && { echo "$ID: cannot find demo destination in: $first"; exit 3; }
case "$dest" in */*) ;; *) dest="router/$dest";; esac
democmd=$(python3 -c "import json;print(json.load(open('$M/meta.json'))['demo_cmd'])")
democmd=$(echo "$democmd" | sed -E "s#/tmp/wt[2345]?-C[0-9]+#$WT#g")
run() { unshare -n bash -c "ip link set lo up; cd $WT; $1" ; }
git apply $M/patch.diff || { echo "$ID: PATCH DOES NOT APPLY"; exit 4; }
go build ./... || { echo "$ID: DOES NOT COMPILE"; exit 5; }
cp $M/demo_test.go.txt $dest
run "timeout 300 $democmd" > /tmp/confirm-$$.demo1 2>&1; d1=$?
rm -f $dest
s1=1; for try in 1 2 3; do run "go test -vet=off -count=1 -timeout 240s ./..." > /tmp/confirm-$$.suite 2>&1 && { s1=0; break; }; done
if [ $s1 -ne 0 ]; then
  # the client tests with 10 ms response timeouts fail intermittently under machine load (also on the unchanged tree):
  # every package that failed in the last full run must pass on its own within 6 tries
  s1=0
  for pkg in $(grep -E '^FAIL[[:space:]]+github.com' /tmp/confirm-$$.suite | awk '{print $2}' | sort -u); do
    okp=1; for try in 1 2 3 4 5 6; do run "go test -vet=off -count=1 -timeout 240s $pkg" > /tmp/confirm-$$.pkg 2>&1 && { okp=0; break; }; done
    [ $okp -ne 0 ] && { s1=1; echo "$ID: package $pkg keeps failing: $(grep -E '^--- FAIL' /tmp/confirm-$$.pkg | head -3 | tr '\n' ' ')"; }
  done
  grep -qE '^FAIL[[:space:]]+github.com' /tmp/confirm-$$.suite || s1=1
fi
git checkout -- . ; git clean -fdq
cp $M/demo_test.go.txt $dest
run "timeout 300 $democmd" > /tmp/confirm-$$.demo2 2>&1; d2=$?
rm -f $dest
echo "$ID: demo_with_change_exit=$d1 suite_with_change_exit=$s1 demo_without_change_exit=$d2"
if [ $d1 -ne 0 ] && [ $s1 -eq 0 ] && [ $d2 -eq 0 ]; then
  mkdir -p /verif/seeded/$ID
  cp $M/patch.diff $M/demo_test.go.txt /verif/seeded/$ID/
  D1=$d1 S1=$s1 D2=$d2 DEST="$dest" DEMOCMD="$democmd" SRC="$M" ID="$ID" BASE="$(git -C /repo rev-parse --short HEAD)" python3 - <<'PY'
import json, os
e=os.environ
m=json.load(open(e['SRC']+'/meta.json'))
m['confirmed_by_me']={'base_commit':e['BASE'],'demo_file':e['DEST'],'demo_cmd':e['DEMOCMD'],
 'ran':['git apply patch.diff','go build ./...','demo with change -> exit %s (fails)' % e['D1'],'go test -vet=off -count=1 -timeout 240s ./... with change (in a private network namespace, up to 3 tries; a package that still failed was re-run alone up to 6 times because of the load-flaky client tests) -> pass','demo without change -> exit %s (passes)' % e['D2']]}
json.dump(m,open('/verif/seeded/'+e['ID']+'/meta.json','w'),indent=1)
PY
  echo "$ID: CONFIRMED"
else
  echo "$ID: NOT CONFIRMED"; tail -5 /tmp/confirm-$$.demo1 | cut -c1-200
fi
rm -f /tmp/confirm-$$.*
