#!/usr/bin/env python3
"""try_many.py <dir> [<dir>…] [-p "C01 C02"|all] [-v]
For every sub-directory (or the directory itself) holding a patch.diff: apply it to a scratch copy of /repo,
run the given checks (default all) on the copy, print which properties report a VIOLATION (and the lines with -v).
Used for seeded variants (expect detection) and for behaviour-preserving refactorings (expect silence)."""
import os, re, shutil, subprocess, sys, tempfile, concurrent.futures
args = sys.argv[1:]
props = 'all'; verbose = False; dirs = []
i = 0
while i < len(args):
    if args[i] == '-p': props = args[i + 1]; i += 2
    elif args[i] == '-v': verbose = True; i += 1
    else: dirs.append(args[i]); i += 1
cands = []
for d in dirs:
    if os.path.exists(os.path.join(d, 'patch.diff')):
        cands.append(d)
    else:
        for s in sorted(os.listdir(d)):
            if os.path.exists(os.path.join(d, s, 'patch.diff')):
                cands.append(os.path.join(d, s))
def run(d):
    tmp = tempfile.mkdtemp(prefix='nxt-')
    try:
        repo = os.path.join(tmp, 'repo'); verif = os.path.join(tmp, 'verif')
        subprocess.run(['rsync', '-a', '--exclude', '.git', '/repo/', repo + '/'], check=True)
        os.makedirs(os.path.join(verif, 'evidence'))
        shutil.copy('/verif/known_findings.json', verif)
        r = subprocess.run(['git', 'apply', os.path.abspath(os.path.join(d, 'patch.diff'))], cwd=repo, capture_output=True, text=True)
        if r.returncode != 0:
            return d, None, 'DOES NOT APPLY: ' + r.stderr.strip()[:300]
        b = subprocess.run(['go', 'build', './...'], cwd=repo, capture_output=True, text=True)
        if b.returncode != 0:
            return d, None, 'DOES NOT BUILD: ' + b.stderr.strip()[:300]
        out = ''
        for p in (['all'] if props == 'all' else props.split()):
            r = subprocess.run([os.environ.get('NXBIN','/verif/bin/nxcheck'), 'check', '-property', p, '-repo', repo, '-verif', verif], capture_output=True, text=True)
            out += r.stdout + r.stderr
        det = sorted(set(re.findall(r'^VIOLATION property=(C\d+)', out, re.M)))
        lines = [l for l in out.splitlines() if l.startswith('VIOLATION')]
        return d, det, '\n'.join('    ' + re.sub(r'replay=\S+ ', '', l)[:420] for l in lines)
    finally:
        shutil.rmtree(tmp, ignore_errors=True)
with concurrent.futures.ThreadPoolExecutor(max_workers=4) as ex:
    for d, det, txt in ex.map(run, cands):
        print(d, 'detected_by=' + (','.join(det) if det else '-') if det is not None else txt, flush=True)
        if verbose and det: print(txt, flush=True)
