#!/usr/bin/env python3
"""Assembles /verif/DESIGN.md from DESIGN.tmpl.md and what the machinery reports:
section 4 from `nxcheck describe` + the last evidence files (rules, obligation counts, floors),
section 5 from known_findings.json, section 6 from seeded/BANK.json and the seeded meta files."""
import json, os, subprocess, sys
sys.path.insert(0, '/verif')
from manifest_table import TECH
V = '/verif'
desc = json.loads(subprocess.run([V + '/bin/nxcheck', 'describe'], capture_output=True, text=True, check=True).stdout)
props = [json.loads(l) for l in open(V + '/properties.jsonl') if l.strip()]
title = {p['id']: (p.get('title') or p.get('name') or '') for p in props}

def sec4():
    o = ['## 4. Per-property claims (generated from the checker)', '',
         'For every property: the deciding method (as in MANIFEST.json), what the check decides and what it does not',
         '(verbatim from `nxcheck describe`, the same text is in every evidence file), and the rules with the number of',
         'obligations they produced on the current tree in the last run (`discharged/violated/undecided`, floor = minimum',
         'instance count confirmed by reading; fewer is reported as undecided).', '']
    for pid in sorted(desc):
        d = desc[pid]
        o.append('### %s %s' % (pid, ('— ' + title[pid]) if title.get(pid) else ''))
        o.append('')
        o.append('*Method.* ' + TECH[pid] if isinstance(TECH[pid], str) else '*Method.* ' + str(TECH[pid]))
        o.append('')
        o.append('*Decides.* ' + d['decides'])
        o.append('')
        o.append('*Does not decide.* ' + d['not_decided'])
        o.append('')
        ev = V + '/evidence/%s.json' % pid
        if os.path.exists(ev):
            c = json.load(open(ev))['coverage']
            floors = c.get('instance_floors') or {}
            o.append('| rule | discharged | violated (known) | undecided | floor |')
            o.append('|---|---|---|---|---|')
            for r, cnt in sorted(c['per_rule'].items()):
                if r.startswith('[GOARCH'):
                    continue
                o.append('| %s | %d | %d | %d | %s |' % (r, cnt.get('discharged', 0), cnt.get('violated', 0), cnt.get('undecided', 0), floors.get(r, '')))
            o.append('')
    return '\n'.join(o)

def sec5():
    kf = json.load(open(V + '/known_findings.json'))['findings']
    fixed = [f for f in kf if f['status'] == 'fixed']
    known = [f for f in kf if f['status'] == 'known']
    o = ['## 5. Findings and their disposition (generated from known_findings.json)', '',
         'All of these are genuine defects of gammazero/nexus at the pinned commit: each was reproduced against the real',
         'code before it was touched (`/verif/repro/`), none is a checker artefact. %d were repaired, each by one minimal' % len(fixed),
         'unguarded `fix:` commit in `/repo` with which the unedited 188-test suite passes; the reverse of each commit is',
         'kept as a seeded variant (section 6) so that the check that owns the defect is shown to report it again if it',
         'returns. %d are recorded, not repaired, because the repair is a redesign rather than a patch a maintainer would' % len(known),
         'take unseen; the check prints `KNOWN-FINDING` for exactly that obligation key and still reports any other',
         'violation of the same rule.', '',
         '**Known (not repaired)**', '']
    for f in known:
        o.append('* **%s** — key `%s`. %s' % (f['property'], f['key'], f['what']))
    o += ['', '**Repaired**', '', '| id | property | commit | what failed / what the commit does |', '|---|---|---|---|']
    for f in fixed:
        did, _, what = f['what'].partition(': ')
        o.append('| %s | %s | %s | %s |' % (did, f['property'], f['commit'], what))
    o += ['',
          'Process-killing defects reachable by a remote client or by calling `Close` (all repaired): D1, D5, D6 (panics on',
          'client-controlled input or close of a shared channel), D3, D4, D14, D15 (send on closed channel / close of closed',
          'channel during shutdown), D17, D19 (client library), D23 (silent frame corruption rather than a crash).',
          'D18, D30 and D35 hang the client (Close or an API call never returns), D31 leaves a caller without a usable reply,',
          'D26 and D32 stall or hang a whole realm (one slow meta-API caller; Close with a meta call in flight), D33 and D34',
          'leave goroutines behind or make Close wait for a client-chosen time.',
          'D29 was found by the finished C16 check on the tree that already carried the other repairs.']
    return '\n'.join(o)

def sec6():
    bank = json.load(open(V + '/seeded/BANK.json'))
    o = ['## 6. Seeded changes and the detection matrix (generated from seeded/BANK.json)', '',
         'Two sources of realistic breakage. (a) **Sub-agent variants**: for every property a fresh sub-agent, given only the',
         'property text and its own scratch worktree of `/repo`, produced changes that break the property, still compile, still',
         'pass the 188 tests and need something specific to manifest (an unusual option, a particular interleaving, a',
         'disconnect at the wrong moment), each with a demonstration test. I kept a variant only after confirming in a scratch',
         'worktree that the demonstration fails with the change, passes without it, and that the unedited suite passes with',
         'it (`tools/confirm_mutant.sh`; what was run is in each `meta.json`). (b) **Reverted fixes**: the reverse of every',
         '`fix:` commit (for D8 a forward `reintroduce.diff`, because later repairs touched the same lines).',
         '`tools/matrix.py` applies each variant to a scratch copy and runs all twenty checks on it; the table is its output.',
         'A variant counts as detected by a check when that check exits 1 with a VIOLATION line naming the construct.', '']
    refs = {k: v for k, v in bank.items() if k.startswith('refactor-')}
    bank = {k: v for k, v in bank.items() if not k.startswith('refactor-')}
    muts = {k: v for k, v in bank.items() if not k.startswith('revert-')}
    revs = {k: v for k, v in bank.items() if k.startswith('revert-')}
    own = 0
    o += ['| variant | breaks | change | detected by |', '|---|---|---|---|']
    for k in sorted(muts):
        v = muts[k]
        mp = V + '/seeded/%s/meta.json' % k
        prop = json.load(open(mp)).get('property', k[:3]) if os.path.exists(mp) else k[:3]
        if prop in v['detected_by']:
            own += 1
        det = ', '.join(('**%s**' % p) if p == prop else p for p in v['detected_by']) or ('— (no longer applies)' if not v['applies'] else '**MISSED**')
        o.append('| %s | %s | %s | %s |' % (k, prop, v['what'].replace('|', '/').replace('\n', ' ')[:230], det))
    o += ['', '| reverted fix | repaired defect | detected by |', '|---|---|---|']
    for k in sorted(revs):
        v = revs[k]
        det = ', '.join(v['detected_by']) or ('— (no longer applies)' if not v['applies'] else '**MISSED**')
        o.append('| %s | %s | %s |' % (k, v['what'].replace('|', '/'), det))
    applied = [k for k, v in bank.items() if v['applies']]
    missed = [k for k in applied if not bank[k]['detected_by']]
    o += ['', '**Behaviour-preserving refactorings (every check must stay silent).** %d refactorings, three per property, of different routine kinds; alarms raised: %s.' % (
        len(refs), ', '.join('%s (%s)' % (k, ','.join(v['detected_by'])) for k, v in sorted(refs.items()) if v['detected_by']) or 'none'), '',
        '| refactoring | kind and change | alarms |', '|---|---|---|']
    for k in sorted(refs):
        o.append('| %s | %s | %s |' % (k, refs[k]['what'].replace('|', '/').replace('\n', ' ')[:200], ', '.join(refs[k]['detected_by']) or 'none'))
    o += ['', 'Totals: %d variants (%d sub-agent, %d reverted fixes), %d apply to the current tree, %d detected by at least one check, %d sub-agent variants detected by the check of the property they were written against; missed: %s.' % (
        len(bank), len(muts), len(revs), len(applied), len(applied) - len(missed), own, ', '.join(missed) or 'none'), '',
        'How the checks got there. The first run of each batch missed a number of variants; every miss was answered by a',
        'rule that states a clause of the property the check had not covered (never by matching the variant). The main',
        'strengthenings: provenance rules for EVENT/INVOCATION/RESULT fields (C01, C02, C03); per-type request-id arms of the',
        'authorization refusal (C10); the cancel state machine and timeout arms shared by C07 and C13; `simplePublishFilter.',
        'Allowed` early-return discipline (C01); order-preserving callee removal and progressive-invocation stickiness (C03);',
        'who-may-send by message type and same-action ordering (C08); retained-event ring bound and query order (C20);',
        'base64/tag/shape agreement of the serializers (C14); handshake limit and code tables (C15); waiter removal and',
        'progress goroutine awaited (C16, C17); duplicate-callee rule shared by C03, C05 and C18; freshness followed through',
        'constructor-like callees, which removed an exemption that had hidden a C11 variant (C11, C12).',
        'Round 2 (after all first-round variants were detected): new sub-agents were asked for subtler changes (later',
        'clauses, secondary paths, sibling paths made to disagree, diffs a reviewer would approve). The first run missed',
        'ten of them outright and attributed eight more only to a neighbouring property; each was answered by a rule stating',
        'the clause: exclude_me honoured whenever given (C01); the give-up cancel names the caller\'s own request (C07);',
        'client event delivery without goroutines (C08); the issued challenge is never an output buffer (C09); authorizer',
        'exemption wired to its own option (C10); realm.close never on the router goroutine (C11); wire layout table of all',
        'message structs and no narrowing of the type code (C14); control frames bound by the limit (C15); kill switch',
        'recorded before the handler starts (C16); invocation goroutines never block on the peer alone, one timer per wait',
        '(C17); and removal/timer/policy/shutdown-flag/local-copy rules shared between C01, C02, C03, C04, C05, C06, C13, C18.',
        'Round 3 asked for changes in other layers (wamp/, transport/, serialize/, auth/, configuration plumbing), values',
        'used under the wrong key/role/unit, siblings made to disagree, boundaries, and hand-overs moved by one statement.',
        'First run: 19 of 60 missed outright, 10 caught only by a neighbour. New rules: only the in-process peer is local',
        '(C09, C10); random buffers have their full length (C09); the feature table is per role and records true values only',
        '(C02, C03, C12, C13); endSession never passes a nil goodbye (C02, C05); the realm table is written only after',
        'newRealm succeeded (C11); broker and dealer get the realm\'s options in the right positions (C11, C19); codec option',
        'audit and integer-only type codes (C14); SyncIDGen returns the value drawn under its lock, the client reads numbers',
        'tolerantly (C16); keep-alive closes the connection, payloads decode into values or nil-checked pointers (C15, C17);',
        'testament buckets per scope and written back (C05, C18); last received id (C19); template realms keep their',
        'Authorizer (C10); identity order, match predicates and match functions shared with C01, C18, C20.',
        'Round 4 (same brief, new agents, after rounds 1-3 were all detected): 60 variants, first run 7 missed outright and 9',
        'caught only by a neighbour. New rules: the serializer of a router-side websocket peer is one selected by the',
        'negotiated sub-protocol, never an unset configuration value (C04, C15); the authenticator is looked up under the very',
        'method name that is reported and stored as authmethod, and a key store\'s OnWelcome hook is a success point that needs',
        'the same verification guard as the WELCOME return (C09); the canceled mark is cleared only for invocations of the',
        'leaving callee, forward_timeout is fixed when the registration is created (C02, C05, C13); every accepted cancel mode',
        'is stored and the empty one resets to killnowait (C16); abandonCall releases the waiter on every path (C16, C17);',
        'and rules shared with the neighbour that had caught the variant: URI pattern dispatch (C01, C03), shutdown flag (C03),',
        'dict privacy of the kill GOODBYE (C05, C18), meta-session shutdown join (C07), duplicate callee (C08), last received',
        'id (C16), no nil message from a transport (C17), private copies for in-process subscribers (C20).',
        'Round 5 (eight agents, the properties with most earlier misses, told which places earlier rounds had used): 16 variants,',
        'first run 6 missed outright, 3 caught only by a neighbour. New rules: an action closure that signals completion through a',
        'captured channel does so on every path (C04, C06, C07); the substitute key used for an unknown authid comes from',
        'crypto/rand (C09); a listener\'s zero outbound queue size is replaced by the default in the accept path (C07, C15); the',
        'reply hand-over channel is unbuffered (C16, C17); ConnectNet never hands a nil logger to a transport, the websocket',
        'control-frame handlers of both send loops never block on the send goroutine (C17); ruleFailCall shared with C06, progressive stickiness with C13.',
        'One round-5 variant (an off-by-one bound on a new serializer table indexed by the handshake byte) was at first caught',
        'only by C15, and only because the handshake no longer had the shape C15 expects; C04 now has the clause itself: an',
        'array index computed from a byte of a locally read buffer is masked/shifted below the array size or dominated by a',
        'constant comparison that bounds it (zero such sites on the unchanged tree; silent on the corrected table-driven',
        'handshake, one violation on the off-by-one). Indices that come from parameters are not decided and are skipped.',
        'Reading for these rounds also turned up four more genuine defects, all reproduced and repaired: D31 (sub-agent',
        'remark while working on C02), D32–D34 (sub-agent remarks while working on C06) and D35 (several sub-agents saw the',
        'repository\'s own TestClientRace hang in Client.Register under load: an API call blocked in its send when the session',
        'was killed at that moment). D32 and D35 explain hangs of the existing suite that are independent of any seeded change.',
        'Variants that could not be kept: three "kill_all keeps the wrong session" variants fail the existing suite when',
        'ported to the repaired tree; two C17 variants fail the suite; one C06 variant stopped being a violation after the',
        'D4 repair (the timers are now joined).']
    return '\n'.join(o)

t = open(V + '/DESIGN.tmpl.md').read()
kfs = json.load(open(V + '/known_findings.json'))['findings']
t = t.replace('@@NFIXED@@', str(sum(1 for f in kfs if f['status'] == 'fixed'))).replace('@@NKNOWN@@', (lambda n: 'none is left' if n == 0 else str(n) + (' is' if n == 1 else ' are'))(sum(1 for f in kfs if f['status'] == 'known')))
t = t.replace('@@PROPERTIES@@', sec4()).replace('@@FINDINGS@@', sec5()).replace('@@SEEDED@@', sec6())
open(V + '/DESIGN.md', 'w').write(t)
print('DESIGN.md', len(t.splitlines()), 'lines')
