#!/bin/sh
# usage: run_mutants.sh <dir-with-mN> "<props>"   e.g. run_mutants.sh /tmp/mut/C01 C01
D=$1; PROPS=$2
for m in $D/m*; do
  [ -f $m/patch.diff ] || continue
  echo "### $m: $(python3 -c "import json;print(json.load(open('$m/meta.json'))['summary'][:150])" 2>/dev/null)"
  /verif/tools/try_patch.sh $m/patch.diff "$PROPS" | grep -E '^(property=|PATCH|DOES)' | cut -c1-200
done
