#!/usr/bin/env python3
"""Regenerates the 'fixed' entries of known_findings.json from the fix: commits in /repo (known entries are kept as they are)."""
import json,subprocess
kf=json.load(open('/verif/known_findings.json'))
log=subprocess.run(['git','-C','/repo','log','--reverse','--format=%h|%s','f847da7..HEAD'],capture_output=True,text=True).stdout.strip().split('\n')
propmap={
 'do not panic on non-string ppt':('C04','D1'),'refuse REGISTER with an unknown':('C03','D2'),'cannot join the same shared':('C03','D8'),
 'reserved type':('C04','D6'),'does not fit 24 bits':('C15','D23'),'its own details dict':('C12','D7'),'event history: read numeric':('C20','D9'),
 'UNSUBSCRIBE from a subscription':('C01','D10a'),'keep event-history subscriptions':('C20','D10b'),'do not leak a d.calls':('C05','D11'),
 'cleanSessionDetails must not':('C12','D12'),'cryptosign':('C09','D13'),'count_subscribers answers':('C18','D16'),'testament for a session':('C05','D21'),
 'refusal of an ERROR':('C10','D22'),'UNREGISTER of a registration':('C03','D24'),'kill-mode canceled':('C02','D28'),'must not close a session':('C04','D5'),
 'malformed payload-passthru':('C17','D17'),'release reply slot':('C16','D20'),'acknowledged Publish that is not sent':('C16','D29'),'only Close() closes':('C17','D19'),'keep peers of shut-down':('C06','D14'),
 'call timeout timers':('C06','D4'),'after Router.Close fail cleanly':('C06','D3'),'realm that is being removed':('C06','D15'),
 'spell wamp.subscription.count_subscribers':('C18','D25'),'loose URI check rejects':('C19','D27'),'a waiter that gave up':('C17','D18'),'ABORT sent from an invocation handler':('C17','D30'),'YIELD refused for payload-passthru':('C02','D31'),'results of meta procedures are not retried':('C07','D26'),'realm shutdown does not hang':('C06','D32'),'AddRealm on a router that has been closed':('C06','D33'),'one timeout timer per call':('C06','D34'),'sending its request when the connection ends':('C17','D35'),
}
kf['findings']=[f for f in kf['findings'] if f['status']=='known']
for l in log:
    h,subj=l.split('|',1)
    if not subj.startswith('fix:'): continue
    for k,(p,d) in propmap.items():
        if k in subj:
            kf['findings'].append({'property':p,'status':'fixed','commit':h,'key':'','what':'%s: %s' % (d, subj[len('fix: '):]),'line':'fixed: property=%s %s %s: %s' % (p,h,d,subj[len('fix: '):])})
            break
    else:
        print('UNMAPPED',l)
json.dump(kf,open('/verif/known_findings.json','w'),indent=1)
print(len(kf['findings']),'entries')
