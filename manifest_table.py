NOTES = "All checks are static analyses of /repo's working tree at level 'other': each decides named structural necessary conditions of its property (see DESIGN.md section 4), never the behavioural statement itself."
NOT_APPLICABLE = {}
NOTE_COMMON = "Trusted base: go/packages + go/types + go/ssa (x/tools v0.50.0, go1.26.8 front end); the obligation tables in checker/internal/props; the source-level normalisation pass (inlining of call-only local closures and of helper functions newer than the rules, rename aliasing, canonical names; the rewritten program is type-checked again); third-party libraries and user callbacks carry no obligations. Level 'other': structural necessary conditions of the property are decided on every path of the anchored functions; the behavioural statement itself (over histories/schedules/values) is not."
CLAIMED = {}
# property -> technique (the deciding method); level text comes from `nxcheck describe`
TECH = {
 "C01": "SSA edge-cut guard obligations + message-field provenance + table agreement (static analysis)",
 "C02": "SSA must-pass-through / pairing obligations on the call state machine + reply provenance + who-may-answer (static analysis)",
 "C05": "SSA must-pass-through clean-up obligations, type-driven table/delete completeness over the static call graph, close-after-removal ordering (static analysis)",
 "C12": "freshness/aliasing analysis of dict writes + disclosure guard obligations + whole-value use audit of session details (static analysis)",
 "C13": "SSA edge-cut guard and must-pass-through obligations on the cancel state machine and timeout arms (static analysis)",
 "C09": "SSA edge-cut guard obligations on the attach path, who-may-call tables, challenge-to-verification dataflow + call-graph reachability of crypto/rand (static analysis)",
 "C10": "must-pass-through authorization gate (edge cut), who-may-call, sibling type-switch agreement (static analysis)",
 "C04": "untrusted-any sink analysis, nil-message and panic-site audits, who-may-close table, owner-goroutine confinement analysis over the call graph, non-blocking send audit (static analysis)",
 "C07": "non-blocking send audit + wait-for graph over goroutine roles (lock-order analysis transposed to channel rendezvous) + retry-bound guard obligations (static analysis)",
 "C06": "send-after-close typestate over goroutine roles (join tables), close-site ordering (dominance), lock-region flag tests, WaitGroup pairing (static analysis)",
 "C08": "spawn-freedom of the dispatch path over the call graph, who-may-send tables by message type and owner confinement, unbuffered single-consumer hand-off checks (static analysis)",
 "C11": "type-graph isolation, constructor who-may-call tables, package-level write audit, config aliasing and dict freshness analysis (static analysis)",
 "C18": "table agreement between URI constants, registry and handlers (external WAMP meta API table), error-URI set audit, owner confinement, meta-event guard/order obligations (static analysis)",
 "C20": "untrusted-any numeric-assertion sink analysis, retention and save guard obligations (edge cut), ring-buffer and filter-order must-pass obligations (static analysis)",
 "C19": "regular-language equivalence of the URI patterns with reference languages (product construction over compiled regexp programs), dispatch enumeration, guard obligations with constants (static analysis)",
 "C14": "table agreement over go/types and SSA (constants, constructor arms, methods, struct tags), handle-initialisation pairing, loop-bound guard obligations (static analysis); value round-trip is explicitly not claimed",
 "C15": "frame read/write guard obligations (edge cut), handshake table agreement, nil-message and reserved-frame reachability, numeric-assertion sink analysis (static analysis)",
 "C16": "ordering and pairing obligations (must-pass-through) on the client's request/reply rendezvous, reply-type table agreement, one-answer-per-path reachability (static analysis)",
 "C17": "untrusted-any sink analysis on router-derived data, session-lock pairing and leaf-region analysis, who-may-close table, shutdown sequencing obligations (static analysis)",
 "C03": "SSA edge-cut guard obligations, switch/case-set agreement, INVOCATION provenance (static analysis)",
}
