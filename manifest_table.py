NOTES = "All checks are static analyses of /repo's working tree at level 'other': each decides named structural necessary conditions of its property (see DESIGN.md section 4), never the behavioural statement itself."
NOT_APPLICABLE = {}
NOTE_COMMON = "Trusted base: go/packages + go/types + go/ssa (x/tools v0.50.0, go1.26.8 front end); the obligation tables in checker/internal/props; third-party libraries and user callbacks carry no obligations. Level 'other': structural necessary conditions of the property are decided on every path of the anchored functions; the behavioural statement itself (over histories/schedules/values) is not."
CLAIMED = {
 "C01": ("edge-cut guard obligations + provenance of message fields on SSA (static analysis)",
         "Decides on the SSA of broker.go that no EVENT send bypasses the publisher-exclusion, filter and topic-match guards; that EVENT/PUBLISHED/SUBSCRIBED fields have the right provenance; that URI validation dominates the hand-off; that match policy selects tables consistently; that UNSUBSCRIBE has effects only for a member. Does not decide exactly-once delivery over histories nor the match functions themselves.",
         NOTE_COMMON, "DESIGN.md section 4 C01"),
}
