NOTES = "All checks are static analyses of /repo's working tree at level 'other': each decides named structural necessary conditions of its property (see DESIGN.md section 4), never the behavioural statement itself."
NOT_APPLICABLE = {}
CLAIMED = {}
